package main

// Go-side specification: a direct port of the parts of bash 5.2's braces.c
// (brace_expand, brace_gobbler, expand_amble, expand_seqterm, mkseq) that are
// reachable for words without quotes, '$', '`', '<', '>', '(' and whitespace.
// Integer sequences are computed with math/big (ideal arithmetic) and bash's
// own overflow guards are kept as explicit conditions. It mirrors
// coq/Expand/Braces.v (Spec part) and is validated against real bash on every
// run (oracle leg).

import (
	"math/big"
	"strings"
)

const limit = 16384

type feat struct {
	skippedClose    bool // a level-0 '}' was passed over because no comma/.. had been seen (bash keeps looking for a later '}')
	nestedComma     bool // an amble without a top-level comma was still treated as a list because a nested/escaped-level comma exists
	seqGuard        bool // a syntactically valid sequence rejected by one of mkseq's overflow guards
	emptyStart      bool // "{}" at the start of the (sub)text ignored by the gobbler
	failedSeqNested bool // a comma-less amble that is not a sequence and contains a '{': bash keeps it literal as a whole
	crossCase       bool // a letter range with one upper-case and one lower-case end (contains '\\' and '`')
	zpadWide        bool // zero-padded sequence with a value outside int32: bash 5.2 formats (int)n, a bash defect
}

func (f feat) String() string {
	var l []string
	if f.skippedClose {
		l = append(l, "skippedClose")
	}
	if f.nestedComma {
		l = append(l, "nestedComma")
	}
	if f.seqGuard {
		l = append(l, "seqGuard")
	}
	if f.emptyStart {
		l = append(l, "emptyStart")
	}
	if f.failedSeqNested {
		l = append(l, "failedSeqNested")
	}
	if f.zpadWide {
		l = append(l, "zpadWide")
	}
	return strings.Join(l, "+")
}

// gobble scans t from i for an unescaped byte sat at brace level 0.
// Returns the byte found (0 at the end of the text) and the index.
func gobble(t string, i int, sat byte, f *feat) (byte, int) {
	level, commas, pass := 0, 1, false
	if sat == '}' {
		commas = 0
	}
	for i < len(t) {
		c := t[i]
		if pass {
			pass = false
			i++
			continue
		}
		if c == '\\' {
			pass = true
			i++
			continue
		}
		if c == sat && level == 0 && commas > 0 {
			if c == '{' && i == 0 && (i+1 >= len(t) || t[i+1] == '}') {
				if i+1 < len(t) {
					f.emptyStart = true
				}
				i++
				continue
			}
			return c, i
		}
		if c == sat && sat == '}' && level == 0 && commas == 0 {
			f.skippedClose = true
		}
		if c == '{' {
			level++
		} else if c == '}' && level > 0 {
			level--
		} else if sat == '}' && c == ',' && level == 0 {
			commas++
		} else if sat == '}' && level == 0 && strings.HasPrefix(t[i:], "..") && !(i+2 < len(t) && t[i+2] == '}') {
			commas++
		}
		i++
	}
	return 0, i
}

// product a × b, a-major. many is absorbing: every factor is non-empty.
func product(a, b []string) ([]string, bool) {
	if len(a)*len(b) > limit {
		return nil, true
	}
	out := make([]string, 0, len(a)*len(b))
	for _, x := range a {
		for _, y := range b {
			out = append(out, x+y)
		}
	}
	return out, false
}

func braceExpand(t string, f *feat) ([]string, bool) {
	i := 0
	var c byte
	for {
		c, i = gobble(t, i, '{', f)
		if c == 0 {
			break
		}
		c2, _ := gobble(t, i+1, '}', f)
		if c2 != 0 {
			break
		}
		i++
	}
	if c != '{' {
		return []string{t}, false
	}
	pre := t[:i]
	start := i + 1
	_, i = gobble(t, start, '}', f)
	amble := t[start:i]
	// flat scan for an unescaped comma (not brace-level aware)
	j := 0
	for j < len(amble) {
		if amble[j] == '\\' {
			j += 2
			continue
		}
		if amble[j] == ',' {
			break
		}
		j++
	}
	var tack []string
	many := false
	if j >= len(amble) {
		var ok bool
		tack, ok, many = seqTerm(amble, f)
		if many {
			return nil, true
		}
		if !ok {
			tack = []string{"{" + amble + "}"}
			if hasUnescaped(amble, '{') {
				f.failedSeqNested = true
			}
		}
	} else {
		tack, many = expandAmble(amble, f)
		if many {
			return nil, true
		}
	}
	res, many := product([]string{pre}, tack)
	if many {
		return nil, true
	}
	post := t[i+1:]
	if post != "" {
		pr, many := braceExpand(post, f)
		if many {
			return nil, true
		}
		res, many = product(res, pr)
		if many {
			return nil, true
		}
	}
	return res, false
}

func expandAmble(t string, f *feat) ([]string, bool) {
	var res []string
	start, i := 0, 0
	pieces := 0
	for {
		var c byte
		c, i = gobble(t, i, ',', f)
		part, many := braceExpand(t[start:i], f)
		if many {
			return nil, true
		}
		pieces++
		res = append(res, part...)
		if len(res) > limit {
			return nil, true
		}
		if c == 0 {
			break
		}
		i++
		start = i
	}
	if pieces == 1 {
		f.nestedComma = true
	}
	return res, false
}

var (
	minI64 = new(big.Int).Lsh(big.NewInt(-1), 63)
	maxI64 = new(big.Int).Sub(new(big.Int).Lsh(big.NewInt(1), 63), big.NewInt(1))
)

// strtoimax-like: optional sign, then the maximal run of digits. Returns the
// value (nil if there is no digit), the rest of the string, and whether the
// value is in int64 range.
func strtoimax(s string) (*big.Int, string, bool) {
	i := 0
	if i < len(s) && (s[i] == '+' || s[i] == '-') {
		i++
	}
	d := i
	for i < len(s) && s[i] >= '0' && s[i] <= '9' {
		i++
	}
	if i == d {
		return nil, s, false
	}
	v, _ := new(big.Int).SetString(s[:i], 10)
	return v, s[i:], v.Cmp(minI64) >= 0 && v.Cmp(maxI64) <= 0
}

func isAlpha(b byte) bool { return b >= 'a' && b <= 'z' || b >= 'A' && b <= 'Z' }
func isDigit(b byte) bool { return b >= '0' && b <= '9' }

// seqTerm = expand_seqterm + mkseq. ok=false: not a sequence (caller keeps the text literal).
func seqTerm(text string, f *feat) (out []string, ok bool, many bool) {
	k := strings.Index(text, "..")
	if k < 0 {
		return nil, false, false
	}
	lhs, rhs := text[:k], text[k+2:]
	if lhs == "" || rhs == "" {
		return nil, false, false
	}
	const (
		bad = iota
		tInt
		tChar
	)
	lt := bad
	var lv, rv *big.Int
	if v, rest, inr := strtoimax(lhs); v != nil && rest == "" && inr {
		lt, lv = tInt, v
	} else if len(lhs) == 1 && isAlpha(lhs[0]) {
		lt = tChar
	}
	rt := bad
	ep := ""
	rhsNumLen := 0
	if isDigit(rhs[0]) || ((rhs[0] == '+' || rhs[0] == '-') && len(rhs) > 1 && isDigit(rhs[1])) {
		v, rest, inr := strtoimax(rhs)
		rt, rv, ep = tInt, v, rest
		rhsNumLen = len(rhs) - len(rest)
		if !inr || (rest != "" && rest[0] != '.') {
			rt = bad
		}
	} else if isAlpha(rhs[0]) && (len(rhs) == 1 || rhs[1] == '.') {
		rt, ep = tChar, rhs[1:]
		rhsNumLen = 1
	}
	incr := big.NewInt(1)
	if rt != bad {
		if len(ep) > 2 && ep[0] == '.' && ep[1] == '.' {
			v, rest, inr := strtoimax(ep[2:])
			if v == nil {
				rt = bad // no conversion: *ep stays at the text
			} else {
				incr, ep = v, rest
				if !inr {
					rt = bad
				}
			}
		}
		if ep != "" {
			rt = bad
		}
	}
	if lt != rt || lt == bad || rt == bad {
		return nil, false, false
	}
	width := 0
	if lt == tChar {
		lv, rv = big.NewInt(int64(lhs[0])), big.NewInt(int64(rhs[0]))
		if (lhs[0] >= 'a') != (rhs[0] >= 'a') {
			f.crossCase = true
		}
	} else {
		ll, rl := len(lhs), rhsNumLen
		zint := false
		if ll > 1 && lhs[0] == '0' {
			width, zint = ll, true
		}
		if ll > 2 && lhs[0] == '-' && lhs[1] == '0' {
			width, zint = ll, true
		}
		if rl > 1 && rhs[0] == '0' && width < rl {
			width, zint = rl, true
		}
		if rl > 2 && rhs[0] == '-' && rhs[1] == '0' && width < rl {
			width, zint = rl, true
		}
		if zint {
			width = max(width, ll, rl)
		}
	}
	// mkseq
	if incr.Sign() == 0 {
		incr = big.NewInt(1)
	}
	cmp := lv.Cmp(rv)
	if cmp > 0 && incr.Sign() > 0 {
		incr = new(big.Int).Neg(incr)
	} else if cmp < 0 && incr.Sign() < 0 {
		if incr.Cmp(minI64) == 0 {
			f.seqGuard = true
			return nil, false, false
		}
		incr = new(big.Int).Neg(incr)
	}
	span := new(big.Int).Sub(rv, lv)
	// SUBOVERFLOW (end, start, INTMAX_MIN+3, INTMAX_MAX-2)
	guard := (lv.Sign() > 0 && rv.Cmp(new(big.Int).Add(new(big.Int).Add(minI64, big.NewInt(3)), lv)) < 0) ||
		(lv.Sign() < 0 && rv.Cmp(new(big.Int).Add(new(big.Int).Sub(maxI64, big.NewInt(2)), lv)) > 0)
	if guard {
		// bash leaves the text literal; the ideal list is what the property's limit clause is about
		cnt := new(big.Int).Quo(new(big.Int).Abs(span), new(big.Int).Abs(incr))
		if cnt.Cmp(big.NewInt(limit)) >= 0 {
			return nil, false, true
		}
		f.seqGuard = true
		return nil, false, false
	}
	cnt := new(big.Int).Quo(new(big.Int).Abs(span), new(big.Int).Abs(incr))
	if cnt.Cmp(big.NewInt(limit)) >= 0 { // cnt+1 elements
		return nil, false, true
	}
	n := new(big.Int).Set(lv)
	for k := int64(0); k <= cnt.Int64(); k++ {
		var s string
		switch {
		case lt == tChar:
			s = string([]byte{byte(n.Int64())})
		case width > 0:
			if !n.IsInt64() || n.Int64() != int64(int32(n.Int64())) {
				f.zpadWide = true
			}
			s = n.String()
			neg := strings.HasPrefix(s, "-")
			s = strings.TrimPrefix(s, "-")
			padw := width
			if neg {
				padw--
			}
			for len(s) < padw {
				s = "0" + s
			}
			if neg {
				s = "-" + s
			}
		default:
			s = n.String()
		}
		out = append(out, s)
		n.Add(n, incr)
	}
	return out, true, false
}

// unquote = shell quote removal for a word that only contains backslash quoting.
func unquote(s string) string {
	if !strings.Contains(s, "\\") {
		return s
	}
	var sb strings.Builder
	for i := 0; i < len(s); i++ {
		if s[i] == '\\' && i+1 < len(s) {
			i++
		}
		sb.WriteByte(s[i])
	}
	return sb.String()
}

// fieldsOf: what the shell makes of brace expansion results: quote removal, empty words dropped.
func fieldsOf(ws []string) []string {
	out := []string{}
	for _, w := range ws {
		if w == "" {
			continue
		}
		out = append(out, unquote(w))
	}
	return out
}

func hasUnescaped(s string, c byte) bool {
	for i := 0; i < len(s); i++ {
		if s[i] == '\\' {
			i++
			continue
		}
		if s[i] == c {
			return true
		}
	}
	return false
}
