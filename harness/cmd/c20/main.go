// c20: arithmetic evaluation.
//
//	code   : generated expression trees printed to text (+ a malformed token stream): Go parse tree
//	         (syntax.Parser.Arithmetic) and expand.Arithm with a map-backed WriteEnviron (value, error
//	         kind, panic, final environment), plus the verdict of a Go-side reference evaluator that
//	         follows bash's rule over big integers (the twin of the Coq Spec bash_arith).
//	oracle : the same kind of trees inside `echo $(( ))`, `(( ))`, `let`, `a[ ]=`, `for (( ))` programs,
//	         run by interp.Runner in-process (timeout) and by real bash (many cases per process),
//	         compared with each other and with the reference evaluator.
//
// Generator domain (what the property quantifies over): all operators, literal forms (decimal, 0octal,
// 0xhex, base#digits up to base 64), variables holding integer literals in all those forms with
// optional sign/blanks, empty, unset, names of other variables, or expression text; cases whose
// reference evaluation overflows int64 or shifts by a count outside 0..63 are dropped
// ("platform-defined" in the property text).
package main

import (
	"bytes"
	"context"
	"fmt"
	"math/big"
	"math/rand/v2"
	"os"
	"os/exec"
	"path/filepath"
	"sort"
	"strconv"
	"strings"
	"time"

	"mvdan.cc/sh/v3/expand"
	"mvdan.cc/sh/v3/interp"
	"mvdan.cc/sh/v3/syntax"
	"verifharness/hx"
)

// ---------------------------------------------------------------- trees

type kind int

const (
	kLit kind = iota
	kVar
	kUn    // ! ~ + -
	kInc   // ++ -- (post flag), x is kVar
	kBin   // non-assignment binary, incl. comma
	kAsg   // assignment, x is kVar
	kTern  // x ? y : z
	kParen // explicit parentheses
	kIdx   // a[ x ] element read (oracle leg only)
)

type node struct {
	k       kind
	op      string
	text    string // literal text or variable name
	val     int64  // literal value
	bad     bool   // literal is not a valid bash constant
	post    bool
	x, y, z *node
}

var binPrec = map[string]int{
	"**": 2, "*": 3, "/": 3, "%": 3, "+": 4, "-": 4, "<<": 5, ">>": 5,
	"<": 6, ">": 6, "<=": 6, ">=": 6, "==": 7, "!=": 7, "&": 8, "^": 9, "|": 10,
	"&&": 11, "||": 12, ",": 15,
}

func level(n *node) int {
	switch n.k {
	case kLit, kVar, kInc, kParen, kIdx:
		return 0
	case kUn:
		return 1
	case kBin:
		return binPrec[n.op]
	case kTern:
		return 13
	case kAsg:
		return 14
	}
	panic("level")
}

// tokens with minimal parentheses (the Go twin of ArithSyntax.print_min)
func toks(n *node, lvl int, out *[]string) {
	if level(n) > lvl {
		*out = append(*out, "(")
		toks(n, 15, out)
		*out = append(*out, ")")
		return
	}
	switch n.k {
	case kLit, kVar:
		*out = append(*out, n.text)
	case kParen:
		*out = append(*out, "(")
		toks(n.x, 15, out)
		*out = append(*out, ")")
	case kIdx:
		// no blank between the name and `[` (bash requires them adjacent)
		*out = append(*out, n.text+"[")
		toks(n.x, 15, out)
		*out = append(*out, "]")
	case kUn:
		*out = append(*out, n.op)
		toks(n.x, 1, out)
	case kInc:
		if n.post {
			*out = append(*out, n.x.text, n.op)
		} else {
			*out = append(*out, n.op, n.x.text)
		}
	case kBin:
		p := binPrec[n.op]
		if n.op == "**" {
			toks(n.x, 1, out)
			*out = append(*out, n.op)
			toks(n.y, 2, out)
		} else {
			toks(n.x, p, out)
			*out = append(*out, n.op)
			toks(n.y, p-1, out)
		}
	case kTern:
		toks(n.x, 12, out)
		*out = append(*out, "?")
		toks(n.y, 15, out)
		*out = append(*out, ":")
		toks(n.z, 13, out)
	case kAsg:
		*out = append(*out, n.x.text, n.op)
		toks(n.y, 14, out)
	}
}

func isWordTok(t string) bool {
	c := t[0]
	return c == '_' || c >= '0' && c <= '9' || c >= 'a' && c <= 'z' || c >= 'A' && c <= 'Z'
}

// render joins tokens; tight leaves out the blanks that are not needed to keep tokens apart
func render(ts []string, tight bool) string {
	var sb strings.Builder
	for i, t := range ts {
		if i > 0 {
			prev := ts[i-1]
			need := !tight || (!isWordTok(prev) && !isWordTok(t) && prev != "(" && prev != ")" && t != "(" && t != ")" && prev != "]" && t != "]") ||
				// never form `<(` or `>(` (process substitution in an assignment word)
				t == "(" && (strings.HasSuffix(prev, "<") || strings.HasSuffix(prev, ">"))
			if need {
				sb.WriteByte(' ')
			}
		}
		sb.WriteString(t)
	}
	return sb.String()
}

func text(n *node, tight bool) string {
	var ts []string
	toks(n, 15, &ts)
	return render(ts, tight)
}

// ---------------------------------------------------------------- generator

var varNames = []string{"x", "y", "z", "w", "u", "t"}

type litForm struct {
	text string
	val  int64
}

func genLit(r *rand.Rand) *node {
	v := int64(r.IntN(13))
	switch r.IntN(10) {
	case 0:
		v = int64(r.IntN(1000))
	case 1:
		v = int64(r.IntN(64))
	}
	return litNode(r, v)
}

const digs = "0123456789abcdefghijklmnopqrstuvwxyzABCDEFGHIJKLMNOPQRSTUVWXYZ@_"

func inBase(v int64, b int, upper bool) string {
	if v == 0 {
		return "0"
	}
	var s []byte
	for v > 0 {
		d := digs[v%int64(b)]
		if b <= 36 && upper && d >= 'a' && d <= 'z' {
			d = d - 'a' + 'A'
		}
		s = append([]byte{d}, s...)
		v /= int64(b)
	}
	return string(s)
}

func litNode(r *rand.Rand, v int64) *node {
	var t string
	switch r.IntN(12) {
	case 0:
		t = "0" + inBase(v, 8, false)
	case 1:
		t = "0x" + inBase(v, 16, r.IntN(2) == 0)
	case 2:
		t = "0X" + inBase(v, 16, r.IntN(2) == 0)
	case 3:
		b := 2 + r.IntN(35)
		t = strconv.Itoa(b) + "#" + inBase(v, b, r.IntN(2) == 0)
	case 4:
		b := 37 + r.IntN(28)
		t = strconv.Itoa(b) + "#" + inBase(v, b, false)
	case 5:
		b := hx.Pick(r, []int{2, 8, 10, 16, 36, 37, 62, 63, 64})
		t = strconv.Itoa(b) + "#" + inBase(v, b, false)
	default:
		t = strconv.FormatInt(v, 10)
	}
	return &node{k: kLit, text: t, val: v}
}

func genVar(r *rand.Rand) *node { return &node{k: kVar, text: hx.Pick(r, varNames)} }

var plainBin = []string{"+", "-", "*", "/", "%", "**", "<<", ">>", "<", ">", "<=", ">=", "==", "!=", "&", "^", "|", "&&", "||", ","}
var asgOps = []string{"=", "+=", "-=", "*=", "/=", "%=", "&=", "|=", "^=", "<<=", ">>="}

// ops that survive unquoted in a `let` argument
var letBin = []string{"+", "-", "/", "%", "==", ","}
var letAsg = []string{"=", "+=", "-=", "/=", "%="}

func gen(r *rand.Rand, depth int, letSafe bool) *node {
	if depth <= 0 || r.IntN(10) < 2 {
		if r.IntN(5) < 2 {
			return genVar(r)
		}
		if letSafe {
			v := r.IntN(13)
			return &node{k: kLit, text: strconv.Itoa(v), val: int64(v)}
		}
		return genLit(r)
	}
	switch c := r.IntN(20); {
	case c < 9:
		op := hx.Pick(r, plainBin)
		if letSafe {
			op = hx.Pick(r, letBin)
		}
		n := &node{k: kBin, op: op, x: gen(r, depth-1, letSafe)}
		switch op {
		case "**", "<<", ">>":
			// keep exponents and shift counts small most of the time
			if r.IntN(8) > 0 {
				n.y = litNode(r, int64(r.IntN(5)))
			} else {
				n.y = gen(r, depth-1, letSafe)
			}
		default:
			n.y = gen(r, depth-1, letSafe)
		}
		return n
	case c < 12:
		op := hx.Pick(r, asgOps)
		if letSafe {
			op = hx.Pick(r, letAsg)
		}
		return &node{k: kAsg, op: op, x: genVar(r), y: gen(r, depth-1, letSafe)}
	case c < 14:
		if letSafe {
			return &node{k: kInc, op: hx.Pick(r, []string{"++", "--"}), post: true, x: genVar(r)}
		}
		return &node{k: kUn, op: hx.Pick(r, []string{"!", "~", "+", "-"}), x: gen(r, depth-1, letSafe)}
	case c < 16:
		return &node{k: kInc, op: hx.Pick(r, []string{"++", "--"}), post: r.IntN(2) == 0, x: genVar(r)}
	case c < 18:
		if letSafe {
			return genVar(r)
		}
		return &node{k: kTern, x: gen(r, depth-1, false), y: gen(r, depth-1, false), z: gen(r, depth-1, false)}
	case c < 19:
		if letSafe {
			return genVar(r)
		}
		return &node{k: kParen, x: gen(r, depth-1, false)}
	default:
		return genVar(r)
	}
}

// ---------------------------------------------------------------- environments

type binding struct {
	name, text string
	tree       *node // the value read as an expression (nil for empty)
	isLit      bool  // text is an integer literal (optional blanks and sign)
}

// an integer-literal value in one of the forms, with optional sign and blanks
func genIntValue(r *rand.Rand) (string, *node) {
	v := int64(r.IntN(25))
	if r.IntN(8) == 0 {
		v = int64(r.IntN(100000))
	}
	n := litNode(r, v)
	t := n.text
	var tree *node = n
	switch r.IntN(6) {
	case 0:
		t = "-" + t
		tree = &node{k: kUn, op: "-", x: n}
	case 1:
		t = "+" + t
		tree = &node{k: kUn, op: "+", x: n}
	}
	switch r.IntN(8) {
	case 0:
		t = " " + t
	case 1:
		t = t + " "
	case 2:
		t = " \t" + t + "  "
	}
	return t, tree
}

// genEnv: which of x y z w hold what; u is always unset, t is always empty.
// exprVals: allow values that are expression text (known-finding domain) or variable names.
func genEnv(r *rand.Rand, exprVals bool) []binding {
	var env []binding
	for i, name := range []string{"x", "y", "z", "w"} {
		switch c := r.IntN(12); {
		case c == 0: // unset
		case c == 1:
			env = append(env, binding{name: name, text: "", isLit: true})
		case c == 2 && i > 0: // holds the name of an earlier variable (both follow it)
			prev := []string{"x", "y", "z", "w"}[r.IntN(i)]
			env = append(env, binding{name: name, text: prev, tree: &node{k: kVar, text: prev}, isLit: false})
		case c == 3 && exprVals:
			// expression text over literals and earlier variables
			e := gen(r, 2, false)
			restrictVars(r, e, i)
			env = append(env, binding{name: name, text: text(e, r.IntN(2) == 0), tree: e, isLit: false})
		default:
			t, tree := genIntValue(r)
			env = append(env, binding{name: name, text: t, tree: tree, isLit: true})
		}
	}
	env = append(env, binding{name: "t", text: "", isLit: true})
	return env
}

// restrictVars rewrites variable references so that a value only mentions earlier variables
// (no cycles) and never assigns.
func restrictVars(r *rand.Rand, n *node, idx int) {
	if n == nil {
		return
	}
	if n.k == kVar {
		if idx == 0 {
			*n = *litNode(r, int64(r.IntN(9)))
		} else {
			n.text = []string{"x", "y", "z", "w"}[r.IntN(idx)]
		}
		return
	}
	if n.k == kAsg || n.k == kInc {
		*n = *litNode(r, int64(r.IntN(9)))
		return
	}
	restrictVars(r, n.x, idx)
	restrictVars(r, n.y, idx)
	restrictVars(r, n.z, idx)
}

// ---------------------------------------------------------------- reference evaluator (bash's rule)

type refEnv map[string]*binding

type refErr int

const (
	rOK refErr = iota
	rDiv
	rExp
	rUndef  // overflow / shift count: platform-defined, case dropped
	rSyntax // invalid constant
	rDeep
)

var (
	minI = big.NewInt(0).SetInt64(-1 << 63)
	maxI = big.NewInt(0).SetUint64(1<<63 - 1)
)

func fits(z *big.Int) bool { return z.Cmp(minI) >= 0 && z.Cmp(maxI) <= 0 }

func b2i(b bool) *big.Int {
	if b {
		return big.NewInt(1)
	}
	return big.NewInt(0)
}

func (env refEnv) varValue(name string, depth int) (*big.Int, refErr) {
	b := env[name]
	if b == nil || b.text == "" || b.tree == nil {
		return big.NewInt(0), rOK
	}
	if depth > 50 {
		return nil, rDeep
	}
	return env.eval(b.tree, depth+1)
}

func (env refEnv) set(name string, z *big.Int) {
	env[name] = &binding{name: name, text: z.String(), tree: &node{k: kLit, text: z.String(), val: z.Int64()}, isLit: true}
}

func binOp(op string, x, y *big.Int) (*big.Int, refErr) {
	z := new(big.Int)
	switch op {
	case "+":
		z.Add(x, y)
	case "-":
		z.Sub(x, y)
	case "*":
		z.Mul(x, y)
	case "/":
		if y.Sign() == 0 {
			return nil, rDiv
		}
		z.Quo(x, y)
	case "%":
		if y.Sign() == 0 {
			return nil, rDiv
		}
		z.Rem(x, y)
	case "**":
		if y.Sign() < 0 {
			return nil, rExp
		}
		if y.BitLen() > 7 {
			return nil, rUndef
		}
		z.Exp(x, y, nil)
	case "<<", ">>":
		if y.Sign() < 0 || y.Cmp(big.NewInt(63)) > 0 {
			return nil, rUndef
		}
		if op == "<<" {
			z.Lsh(x, uint(y.Int64()))
		} else {
			z.Rsh(x, uint(y.Int64()))
		}
	case "<":
		z = b2i(x.Cmp(y) < 0)
	case ">":
		z = b2i(x.Cmp(y) > 0)
	case "<=":
		z = b2i(x.Cmp(y) <= 0)
	case ">=":
		z = b2i(x.Cmp(y) >= 0)
	case "==":
		z = b2i(x.Cmp(y) == 0)
	case "!=":
		z = b2i(x.Cmp(y) != 0)
	case "&":
		z.And(x, y)
	case "|":
		z.Or(x, y)
	case "^":
		z.Xor(x, y)
	case ",":
		z.Set(y)
	default:
		panic("binOp " + op)
	}
	if !fits(z) {
		return nil, rUndef
	}
	return z, rOK
}

func (env refEnv) eval(n *node, depth int) (*big.Int, refErr) {
	switch n.k {
	case kLit:
		if n.bad {
			return nil, rSyntax
		}
		return big.NewInt(n.val), rOK
	case kVar:
		return env.varValue(n.text, depth)
	case kParen:
		return env.eval(n.x, depth)
	case kIdx:
		i, e := env.eval(n.x, depth)
		if e != rOK {
			return nil, e
		}
		if i.Sign() < 0 || i.BitLen() > 20 {
			return nil, rUndef // negative subscripts (counted from the end / errors) are not generated
		}
		return env.varValue(n.text+"["+i.String()+"]", depth)
	case kUn:
		v, e := env.eval(n.x, depth)
		if e != rOK {
			return nil, e
		}
		z := new(big.Int)
		switch n.op {
		case "!":
			z = b2i(v.Sign() == 0)
		case "~":
			z.Not(v)
		case "+":
			z.Set(v)
		case "-":
			z.Neg(v)
		}
		if !fits(z) {
			return nil, rUndef
		}
		return z, rOK
	case kInc:
		old, e := env.varValue(n.x.text, depth)
		if e != rOK {
			return nil, e
		}
		nv := new(big.Int)
		if n.op == "++" {
			nv.Add(old, big.NewInt(1))
		} else {
			nv.Sub(old, big.NewInt(1))
		}
		if !fits(nv) {
			return nil, rUndef
		}
		env.set(n.x.text, nv)
		if n.post {
			return old, rOK
		}
		return nv, rOK
	case kAsg:
		var cur *big.Int
		if n.op != "=" {
			var e refErr
			cur, e = env.varValue(n.x.text, depth)
			if e != rOK {
				return nil, e
			}
		}
		arg, e := env.eval(n.y, depth)
		if e != rOK {
			return nil, e
		}
		res := arg
		if n.op != "=" {
			res, e = binOp(strings.TrimSuffix(n.op, "="), cur, arg)
			if e != rOK {
				return nil, e
			}
		}
		env.set(n.x.text, res)
		return res, rOK
	case kTern:
		c, e := env.eval(n.x, depth)
		if e != rOK {
			return nil, e
		}
		if c.Sign() != 0 {
			return env.eval(n.y, depth)
		}
		return env.eval(n.z, depth)
	case kBin:
		l, e := env.eval(n.x, depth)
		if e != rOK {
			return nil, e
		}
		switch n.op {
		case "&&":
			if l.Sign() == 0 {
				return big.NewInt(0), rOK
			}
			r, e := env.eval(n.y, depth)
			if e != rOK {
				return nil, e
			}
			return b2i(r.Sign() != 0), rOK
		case "||":
			if l.Sign() != 0 {
				return big.NewInt(1), rOK
			}
			r, e := env.eval(n.y, depth)
			if e != rOK {
				return nil, e
			}
			return b2i(r.Sign() != 0), rOK
		}
		r, e := env.eval(n.y, depth)
		if e != rOK {
			return nil, e
		}
		return binOp(n.op, l, r)
	}
	panic("eval")
}

func newRefEnv(env []binding) refEnv {
	m := refEnv{}
	for i := range env {
		b := env[i]
		m[b.name] = &b
	}
	return m
}

// ---------------------------------------------------------------- map environment for expand.Arithm

type mapEnv struct{ m map[string]string }

func (e *mapEnv) Get(name string) expand.Variable {
	v, ok := e.m[name]
	if !ok {
		return expand.Variable{}
	}
	return expand.Variable{Set: true, Kind: expand.String, Str: v}
}

func (e *mapEnv) Each(f func(string, expand.Variable) bool) {
	for k, v := range e.m {
		if !f(k, expand.Variable{Set: true, Kind: expand.String, Str: v}) {
			return
		}
	}
}

func (e *mapEnv) Set(name string, vr expand.Variable) error {
	if !vr.IsSet() {
		delete(e.m, name)
		return nil
	}
	e.m[name] = vr.Str
	return nil
}

func (e *mapEnv) dump() [][2]string {
	var ks []string
	for k := range e.m {
		ks = append(ks, k)
	}
	sort.Strings(ks)
	out := [][2]string{}
	for _, k := range ks {
		out = append(out, [2]string{hx.Hex(k), hx.Hex(e.m[k])})
	}
	return out
}

// ---------------------------------------------------------------- Go tree -> Coq term

var binNames = map[syntax.BinAritOperator]string{
	syntax.Add: "Add", syntax.Sub: "Sub", syntax.Mul: "Mul", syntax.Quo: "Quo", syntax.Rem: "Rem", syntax.Pow: "Pow",
	syntax.Eql: "Eql", syntax.Gtr: "Gtr", syntax.Lss: "Lss", syntax.Neq: "Neq", syntax.Leq: "Leq", syntax.Geq: "Geq",
	syntax.And: "And", syntax.Or: "Or", syntax.Xor: "Xor", syntax.Shr: "Shr", syntax.Shl: "Shl",
	syntax.AndArit: "AndArit", syntax.OrArit: "OrArit", syntax.XorBool: "XorBool", syntax.Comma: "Comma",
	syntax.TernQuest: "TernQuest", syntax.TernColon: "TernColon",
	syntax.Assgn: "Assgn", syntax.AddAssgn: "AddAssgn", syntax.SubAssgn: "SubAssgn", syntax.MulAssgn: "MulAssgn",
	syntax.QuoAssgn: "QuoAssgn", syntax.RemAssgn: "RemAssgn", syntax.AndAssgn: "AndAssgn", syntax.OrAssgn: "OrAssgn",
	syntax.XorAssgn: "XorAssgn", syntax.ShlAssgn: "ShlAssgn", syntax.ShrAssgn: "ShrAssgn",
}

var unNames = map[syntax.UnAritOperator]string{
	syntax.Not: "Not", syntax.BitNegation: "BitNeg", syntax.Plus: "Plus", syntax.Minus: "Minus",
	syntax.Inc: "Inc", syntax.Dec: "Dec",
}

func coqBytes(s string) string {
	var sb strings.Builder
	sb.WriteByte('[')
	for i := 0; i < len(s); i++ {
		if i > 0 {
			sb.WriteByte(';')
		}
		sb.WriteString(strconv.Itoa(int(s[i])))
	}
	sb.WriteByte(']')
	return sb.String()
}

// coqTree returns "" when the tree has something outside the model's AST
func coqTree(e syntax.ArithmExpr) string {
	switch e := e.(type) {
	case *syntax.Word:
		if len(e.Parts) != 1 {
			return ""
		}
		switch p := e.Parts[0].(type) {
		case *syntax.Lit:
			return "(Word " + coqBytes(p.Value) + ")"
		case *syntax.ParamExp:
			if !p.Short || p.Index == nil || p.Dollar.IsValid() || p.Param == nil {
				return ""
			}
			i := coqTree(p.Index)
			if i == "" {
				return ""
			}
			return "(Index " + coqBytes(p.Param.Value) + " " + i + ")"
		}
		return ""
	case *syntax.ParenArithm:
		x := coqTree(e.X)
		if x == "" {
			return ""
		}
		return "(Paren " + x + ")"
	case *syntax.UnaryArithm:
		x := coqTree(e.X)
		name := unNames[e.Op]
		if x == "" || name == "" {
			return ""
		}
		return fmt.Sprintf("(Un %s %v %s)", name, e.Post, x)
	case *syntax.BinaryArithm:
		x, y := coqTree(e.X), coqTree(e.Y)
		name := binNames[e.Op]
		if x == "" || y == "" || name == "" {
			return ""
		}
		return fmt.Sprintf("(Bin %s %s %s)", name, x, y)
	}
	return ""
}

func hasIndex(e syntax.ArithmExpr) bool {
	found := false
	syntax.Walk(e, func(n syntax.Node) bool {
		if _, ok := n.(*syntax.ParamExp); ok {
			found = true
		}
		return true
	})
	return found
}

// ---------------------------------------------------------------- code leg

type codeObs struct {
	Stream string      `json:"stream"`
	Src    string      `json:"src"`  // hex
	Env    [][2]string `json:"env"`  // hex name, hex value (sorted)
	Tree   string      `json:"tree"` // Coq term | "ERR" | "NIL" | "UNSUP"
	Eval   bool        `json:"eval"` // Arithm was run
	Val    string      `json:"val"`  // decimal
	Err    int         `json:"err"`  // 0 ok, 1 div, 2 exp, 3 unsupported op, 9 other
	Panic  bool        `json:"panic"`
	EnvOut [][2]string `json:"env_out"`
	// reference evaluator (bash rule); RefErr: 0 ok 1 div 2 exp 3 undef(dropped) 5 syntax
	HasRef    bool        `json:"has_ref"`
	RefVal    string      `json:"ref_val"`
	RefErr    int         `json:"ref_err"`
	RefEnv    [][2]string `json:"ref_env"`
	NonLit    bool        `json:"nonlit"` // some variable holds text that is not an integer literal
	Fails     []string    `json:"fails"`
	Class     string      `json:"class"`
	ErrorText string      `json:"error_text,omitempty"`
}

func errKind(err error) int {
	if err == nil {
		return 0
	}
	switch s := err.Error(); {
	case s == "division by zero":
		return 1
	case s == "exponent less than 0":
		return 2
	case strings.HasPrefix(s, "unsupported binary arithmetic operator"):
		return 3
	case s == "assignment requires lvalue":
		return 4
	}
	return 9
}

func sortedEnv(m map[string]string) [][2]string {
	e := mapEnv{m}
	return e.dump()
}

func observeCode(stream, src string, env []binding, tree *node) codeObs {
	o := codeObs{Stream: stream, Src: hx.Hex(src), Env: [][2]string{}, EnvOut: [][2]string{}, RefEnv: [][2]string{}}
	m := map[string]string{}
	for _, b := range env {
		m[b.name] = b.text
	}
	o.Env = sortedEnv(m)
	var expr syntax.ArithmExpr
	var perr error
	if p, msg := hx.Try(func() {
		expr, perr = syntax.NewParser().Arithmetic(strings.NewReader(src))
	}); p {
		o.Tree = "PANIC"
		o.Fails = append(o.Fails, "parser_panics")
		o.ErrorText = msg
		return o
	}
	switch {
	case perr != nil:
		o.Tree = "ERR"
		o.ErrorText = perr.Error()
		return o
	case expr == nil:
		o.Tree = "NIL"
		return o
	}
	o.Tree = coqTree(expr)
	if o.Tree == "" {
		o.Tree = "UNSUP"
		return o
	}
	if hasIndex(expr) {
		return o // a[i] evaluation is outside the modelled evaluator
	}
	o.Eval = true
	me := &mapEnv{m}
	cfg := &expand.Config{Env: me}
	var val int
	var err error
	if p, msg := hx.Try(func() { val, err = expand.Arithm(cfg, expr) }); p {
		o.Panic = true
		o.ErrorText = msg
		o.Fails = append(o.Fails, "arithm_panics")
	} else {
		o.Val = strconv.Itoa(val)
		o.Err = errKind(err)
		if err != nil {
			o.ErrorText = err.Error()
		}
	}
	o.EnvOut = me.dump()
	if tree != nil {
		o.NonLit = usesNonLit(tree, newRefEnv(env), map[string]bool{})
		renv := newRefEnv(env)
		z, e := renv.eval(tree, 0)
		o.HasRef = true
		switch e {
		case rOK:
			o.RefVal = z.String()
		case rDiv:
			o.RefErr = 1
		case rExp:
			o.RefErr = 2
		case rUndef, rDeep:
			o.RefErr = 3
		case rSyntax:
			o.RefErr = 5
		}
		rm := map[string]string{}
		for k, b := range renv {
			rm[k] = b.text
		}
		o.RefEnv = sortedEnv(rm)
		// the property itself, on the library entry point: same value, error-ness, side effects
		if o.RefErr != 3 && !o.Panic {
			same := true
			switch {
			case o.RefErr == 0:
				same = o.Err == 0 && o.Val == o.RefVal
			default:
				same = o.Err != 0
			}
			if same && fmt.Sprint(o.EnvOut) != fmt.Sprint(o.RefEnv) {
				same = false
			}
			if !same {
				o.Fails = append(o.Fails, "arithm_differs_from_bash_rule")
				if o.NonLit {
					o.Class = "arith_var_holds_expression"
				} else if o.RefErr == 5 {
					o.Class = "arith_invalid_literal_is_zero"
				}
			}
		}
	}
	return o
}

var tokAlphabet = []string{"x", "y", "1", "2", "0x1F", "08", "a", "16#ff", "64#@_", "+", "-", "*", "/", "%", "**", "<<", ">>", "<", ">",
	"<=", ">=", "==", "!=", "&", "^", "|", "&&", "||", "^^", ",", "?", ":", "=", "+=", "-=", "*=", "/=", "%=", "&=", "|=", "^=",
	"<<=", ">>=", "!", "~", "++", "--", "(", ")", "[", "]"}

// corpusLines reads a pinned corpus file of the -in directory (comments and blank lines dropped)
func corpusFile(o hx.Opts, name string) (string, bool) {
	if o.In == "" {
		return "", false
	}
	b, err := os.ReadFile(filepath.Join(o.In, name))
	if err != nil {
		return "", false
	}
	return string(b), true
}

func modeCode(o hx.Opts) {
	// the pinned regression corpus runs first, on every seed and tier
	if txt, ok := corpusFile(o, "regress_code.txt"); ok {
		for _, line := range strings.Split(txt, "\n") {
			if line == "" || strings.HasPrefix(line, "#") {
				continue
			}
			src, envs, _ := strings.Cut(line, "\t")
			var env []binding
			for _, kv := range strings.Split(envs, ";") {
				if k, v, ok := strings.Cut(kv, "="); ok {
					env = append(env, binding{name: k, text: v, isLit: true})
				}
			}
			sort.Slice(env, func(i, j int) bool { return env[i].name < env[j].name })
			hx.Emit(observeCode("regress", src, env, nil))
		}
	}
	r := hx.Rand(o.Seed, 20)
	nTree := o.N * 7 / 10
	for i := 0; i < nTree; i++ {
		depth := 1 + r.IntN(4)
		if i%40 == 0 {
			depth = 6
		}
		e := gen(r, depth, false)
		env := genEnv(r, i%4 == 3)
		hx.Emit(observeCode("tree", text(e, r.IntN(4) == 0), env, e))
	}
	// malformed / arbitrary token sequences: parser acceptance, shape, and no panic
	rm := hx.Rand(o.Seed, 2001)
	for i := nTree; i < o.N; i++ {
		var ts []string
		if i%2 == 0 {
			n := 1 + rm.IntN(7)
			ts = make([]string, n)
			for j := range ts {
				ts[j] = hx.Pick(rm, tokAlphabet)
			}
		} else {
			// a valid token sequence with one to three random edits
			toks(gen(rm, 1+rm.IntN(3), false), 15, &ts)
			for k := 1 + rm.IntN(3); k > 0 && len(ts) > 0; k-- {
				j := rm.IntN(len(ts))
				switch rm.IntN(3) {
				case 0:
					ts = append(ts[:j:j], ts[j+1:]...)
				case 1:
					ts = append(ts[:j:j], append([]string{hx.Pick(rm, tokAlphabet)}, ts[j:]...)...)
				default:
					ts[j] = hx.Pick(rm, tokAlphabet)
				}
			}
		}
		env := genEnv(rm, false)
		hx.Emit(observeCode("tokens", strings.Join(ts, " "), env, nil))
	}
	// pinned: literal forms (valid and invalid), whitespace, signs
	for _, s := range pinnedValues {
		env := []binding{{name: "x", text: s, isLit: true}}
		hx.Emit(observeCode("atoi", "x", env, nil))
	}
	for _, s := range []string{"++ x ++", "-- x --", "++ x --", "x ++ ++", "a [ 1 ] ++", "++ a [ 1 ]", "a [ 1 ] = 5", "1 ^^ 1", "x = y = 3", "1 ? 2 : 3 ? 4 : 5", "2 ** 3 ** 2", "- 2 ** 2", "! ! 1", "a [ * ]", "( 1 , 2 )", "1 +", "( 1", "1 2", "1 )", "", "x = ", "1 = 2", "( x ) = 2", "( x ) ++", "1 ? 2", "1 ? : 3", ": 3", "[ 1 ]"} {
		hx.Emit(observeCode("pinned", s, []binding{{name: "x", text: "5", isLit: true}}, nil))
	}
}

var pinnedValues = []string{"", "0", "7", "-7", "+7", " 7", "7 ", "\t7\n", "007", "08", "0x1F", "0X1f", "0x", "0xg", "-0x10", "2#101", "2#102",
	"16#ff", "16#FF", "36#z", "36#Z", "37#Z", "37#z", "64#@_", "64#_@", "65#1", "1#0", "0#1", "10#09", "16#", "#5", "1a", "a1", "--5", "+-5", "-+5", "- 5",
	"9223372036854775807", "9223372036854775808", "-9223372036854775808", "-9223372036854775809", "18446744073709551616", "99999999999999999999x",
	"0x7fffffffffffffff", "0xffffffffffffffff", "64#7__________", "64#8__________", "1_000", "1e3", "1.5", "٣", "12#b", "12#B", "12#c", "127#1", "128#1", "-128#1", "+16#f", "016#f", "1 2"}

// ---------------------------------------------------------------- oracle leg

type ctxKind int

const (
	cEcho ctxKind = iota
	cCmd
	cLet
	cSub
	cFor
)

var ctxNames = []string{"echo$(())", "(())", "let", "a[]=", "for(())"}

type oCase struct {
	ctx     ctxKind
	env     []binding
	script  string
	exprs   []*node // the arithmetic expressions involved (for class predicates)
	want    string  // reference output; "" if the reference drops the case
	refErr  bool
	nonLit  bool
	pinned  string // pinned class witness ("" for generated)
	badLit  bool
	quotedL bool
	elemAsg bool
}

func mustAtoi(s string) int {
	n, _ := strconv.Atoi(s)
	return n
}

func shQuote(s string) string { return "'" + strings.ReplaceAll(s, "'", `'\''`) + "'" }

const dumpLine = `echo "D x=${x-U} y=${y-U} z=${z-U} w=${w-U} u=${u-U} t=${t-U} i=${i-U} j=${j-U}"`

func dumpOf(env refEnv) string {
	var sb strings.Builder
	sb.WriteString("D")
	for _, n := range []string{"x", "y", "z", "w", "u", "t", "i", "j"} {
		b := env[n]
		if b == nil {
			sb.WriteString(" " + n + "=U")
		} else {
			sb.WriteString(" " + n + "=" + b.text)
		}
	}
	return sb.String() + "\n"
}

func envScript(env []binding) string {
	var sb strings.Builder
	for _, b := range env {
		sb.WriteString(b.name + "=" + shQuote(b.text) + "\n")
	}
	return sb.String()
}

// usesNonLit: does evaluating n read a variable whose value is neither empty nor an integer literal,
// in a way the two shells treat differently?  A plain reference to a variable holding just the NAME of
// another variable is followed by both (the loop in Arithm's word case), but ++/--/op= read their
// operand with atoi(envGet(name)), so there a name counts as expression text too.
func usesNonLit(n *node, env refEnv, seen map[string]bool) bool {
	if n == nil {
		return false
	}
	switch n.k {
	case kVar:
		b := env[n.text]
		if b == nil || seen[n.text] {
			return false
		}
		seen[n.text] = true
		if !b.isLit {
			if b.tree != nil && b.tree.k == kVar {
				return usesNonLit(b.tree, env, seen)
			}
			return true
		}
		return false
	case kInc, kAsg:
		if n.k == kInc || n.op != "=" {
			if b := env[n.x.text]; b != nil && !b.isLit {
				return true
			}
		}
		if n.k == kAsg {
			return usesNonLit(n.y, env, seen)
		}
		return false
	}
	return usesNonLit(n.x, env, seen) || usesNonLit(n.y, env, seen) || usesNonLit(n.z, env, seen)
}

// injectIdx replaces some literal leaves by element reads a[ small expression ]
func injectIdx(r *rand.Rand, n *node) {
	if n == nil {
		return
	}
	if n.k == kLit && r.IntN(3) == 0 {
		var ix *node
		switch r.IntN(4) {
		case 0:
			ix = &node{k: kVar, text: hx.Pick(r, []string{"x", "y", "u", "t"})}
		case 1:
			ix = &node{k: kBin, op: hx.Pick(r, []string{"+", "%", "*", "&"}), x: litNode(r, int64(r.IntN(4))), y: litNode(r, int64(1+r.IntN(3)))}
		case 2:
			ix = &node{k: kInc, op: "++", post: r.IntN(2) == 0, x: &node{k: kVar, text: hx.Pick(r, []string{"u", "t"})}}
		default:
			ix = litNode(r, int64(r.IntN(6)))
		}
		*n = node{k: kIdx, text: "a", x: ix}
		return
	}
	if n.k == kAsg || n.k == kInc {
		injectIdx(r, n.y)
		return
	}
	injectIdx(r, n.x)
	injectIdx(r, n.y)
	injectIdx(r, n.z)
}

type loopSpec struct{ ini, cond, post *node }

// genLoopHeader: simple = small literal bounds and a stepping post expression (so that break
// conditions are actually reached); otherwise arbitrary generated sub-expressions.
func genLoopHeader(r *rand.Rand, v string, simple bool) *loopSpec {
	iv := func() *node { return &node{k: kVar, text: v} }
	var a, bnd *node
	cmp := hx.Pick(r, []string{"<", "<=", "!=", ">", ">="})
	if simple {
		a = litNode(r, int64(r.IntN(3)))
		bnd = litNode(r, int64(2+r.IntN(5)))
		cmp = hx.Pick(r, []string{"<", "<=", "<", "!="})
	} else {
		a = gen(r, 1+r.IntN(2), false)
		bnd = gen(r, 1+r.IntN(2), false)
	}
	l := &loopSpec{
		ini:  &node{k: kAsg, op: "=", x: iv(), y: a},
		cond: &node{k: kBin, op: cmp, x: iv(), y: bnd},
	}
	switch r.IntN(6) {
	case 0:
		l.post = &node{k: kInc, op: "++", post: true, x: iv()}
	case 1:
		l.post = &node{k: kInc, op: "++", post: false, x: iv()}
	case 2:
		if simple {
			l.post = &node{k: kAsg, op: "+=", x: iv(), y: litNode(r, int64(1+r.IntN(2)))}
		} else {
			l.post = &node{k: kInc, op: "--", post: r.IntN(2) == 0, x: iv()}
		}
	case 3:
		op := hx.Pick(r, []string{"+=", "-=", "*="})
		if simple {
			op = "+="
		}
		l.post = &node{k: kAsg, op: op, x: iv(), y: litNode(r, int64(1+r.IntN(3)))}
	case 4:
		// a second side effect in the post expression, visible after the loop
		l.post = &node{k: kBin, op: ",", x: &node{k: kInc, op: "++", post: true, x: iv()}, y: genSideEffect(r, simple)}
	default:
		if simple {
			l.post = &node{k: kAsg, op: "=", x: iv(), y: &node{k: kBin, op: "+", x: iv(), y: litNode(r, 1)}}
		} else {
			l.post = &node{k: kAsg, op: "=", x: iv(), y: &node{k: kBin, op: "+", x: iv(), y: gen(r, 1, false)}}
		}
	}
	return l
}

func genSideEffect(r *rand.Rand, simple bool) *node {
	if simple {
		return &node{k: kAsg, op: "+=", x: &node{k: kVar, text: hx.Pick(r, []string{"u", "t"})}, y: litNode(r, int64(1+r.IntN(10)))}
	}
	return gen(r, 2, false)
}

// the condition under which the body does its break / continue
func genBrkCond(r *rand.Rand, v string) *node {
	iv := &node{k: kVar, text: v}
	switch r.IntN(5) {
	case 0:
		return &node{k: kBin, op: hx.Pick(r, []string{">=", ">", "!=", "<"}), x: iv, y: litNode(r, int64(r.IntN(5)))}
	case 1:
		return &node{k: kBin, op: "==", x: &node{k: kBin, op: "%", x: iv, y: litNode(r, 2)}, y: litNode(r, int64(r.IntN(2)))}
	default:
		return &node{k: kBin, op: "==", x: iv, y: litNode(r, int64(r.IntN(6)))}
	}
}

// simLoops runs the loop program on the reference evaluator (bash's rule): break leaves the loop
// WITHOUT evaluating the post expression, continue evaluates it, break 2 / continue 2 act on the
// outer loop.  false = dropped (error, platform-defined value, or too many iterations).
func simLoops(env refEnv, outer, inner *loopSpec, brk *node, act string, want *strings.Builder) bool {
	bodies := 0
	ev := func(n *node) (*big.Int, bool) {
		z, e := env.eval(n, 0)
		return z, e == rOK
	}
	val := func(v string) string {
		if b := env[v]; b != nil {
			return b.text
		}
		return ""
	}
	if _, ok := ev(outer.ini); !ok {
		return false
	}
outerLoop:
	for {
		c, ok := ev(outer.cond)
		if !ok {
			return false
		}
		if c.Sign() == 0 {
			break
		}
		if bodies++; bodies > 24 {
			return false
		}
		if inner == nil {
			hit := false
			if brk != nil {
				b, ok := ev(brk)
				if !ok {
					return false
				}
				hit = b.Sign() != 0
			}
			if hit && strings.HasPrefix(act, "break") {
				break outerLoop
			}
			if !hit {
				want.WriteString("i=" + val("i") + "\n")
			}
		} else {
			if _, ok := ev(inner.ini); !ok {
				return false
			}
			signal := ""
		innerLoop:
			for {
				c, ok := ev(inner.cond)
				if !ok {
					return false
				}
				if c.Sign() == 0 {
					break
				}
				if bodies++; bodies > 24 {
					return false
				}
				b, ok := ev(brk)
				if !ok {
					return false
				}
				if b.Sign() != 0 {
					switch act {
					case "break":
						break innerLoop
					case "break 2", "continue 2":
						signal = act
						break innerLoop
					}
					// continue: falls through to the post expression
				} else {
					want.WriteString("i=" + val("i") + " j=" + val("j") + "\n")
				}
				if _, ok := ev(inner.post); !ok {
					return false
				}
			}
			if signal == "break 2" {
				break outerLoop
			}
			if signal == "" {
				want.WriteString("o=" + val("i") + "\n")
			}
		}
		if _, ok := ev(outer.post); !ok {
			return false
		}
	}
	return true
}

func genOracle(r *rand.Rand, i int) *oCase {
	c := &oCase{ctx: ctxKind(i % 5)}
	exprVals := i%6 == 5
	c.env = genEnv(r, exprVals)
	renv := newRefEnv(c.env)
	init := newRefEnv(c.env)
	tight := r.IntN(3) == 0
	var sb, want strings.Builder
	sb.WriteString(envScript(c.env))
	switch c.ctx {
	case cEcho, cCmd, cSub:
		e := gen(r, 1+r.IntN(4), false)
		if c.ctx != cSub && r.IntN(4) == 0 {
			// element reads of an indexed array holding small integers (a[4], a[5] are unset)
			vals := []string{}
			for k := 0; k < 4; k++ {
				v := strconv.Itoa(r.IntN(30))
				vals = append(vals, v)
				key := "a[" + strconv.Itoa(k) + "]"
				renv[key] = &binding{name: key, text: v, tree: &node{k: kLit, text: v, val: int64(mustAtoi(v))}, isLit: true}
			}
			sb.WriteString("a=(" + strings.Join(vals, " ") + ")\n")
			injectIdx(r, e)
		}
		subAppend := false
		if c.ctx == cSub && r.IntN(3) == 0 {
			// compound element assignment with a side-effecting subscript built from u (unset) and t (empty)
			subAppend = true
			v := &node{k: kVar, text: hx.Pick(r, []string{"u", "t"})}
			switch r.IntN(5) {
			case 0:
				e = &node{k: kInc, op: "++", post: true, x: v}
			case 1:
				e = &node{k: kInc, op: "++", post: false, x: v}
			case 2:
				e = &node{k: kAsg, op: "+=", x: v, y: litNode(r, int64(1+r.IntN(3)))}
			case 3:
				e = &node{k: kBin, op: "+", x: &node{k: kInc, op: "++", post: true, x: v}, y: litNode(r, int64(r.IntN(4)))}
			default:
				e = &node{k: kBin, op: ",", x: &node{k: kInc, op: "++", post: r.IntN(2) == 0, x: genVar(r)}, y: &node{k: kAsg, op: "=", x: v, y: litNode(r, int64(r.IntN(5)))}}
			}
		}
		c.exprs = []*node{e}
		z, er := renv.eval(e, 0)
		if er == rUndef || er == rDeep || er == rSyntax {
			return nil
		}
		if subAppend && (er != rOK || z.Sign() < 0 || z.Cmp(big.NewInt(200)) > 0) {
			return nil
		}
		src := text(e, tight)
		switch c.ctx {
		case cEcho:
			sb.WriteString("echo \"v=$(( " + src + " ))\"\n")
			if er == rOK {
				want.WriteString("v=" + z.String() + "\nst=0\n")
			} else {
				c.refErr = true
				want.WriteString("st=1\n")
			}
		case cCmd:
			sb.WriteString("(( " + src + " ))\n")
			if er == rOK && z.Sign() != 0 {
				want.WriteString("st=0\n")
			} else {
				c.refErr = er != rOK
				want.WriteString("st=1\n")
			}
		case cSub:
			if er == rOK && (z.Sign() < 0 || z.Cmp(big.NewInt(200)) > 0) {
				return nil
			}
			if subAppend {
				// a[ e ]+=5 on a=(p q r): the subscript (with its side effects) is evaluated once,
				// the element is appended to as a string
				sb.WriteString("a=(p q r)\na[ " + src + " ]+=5\n")
				want.WriteString("st=0\n")
				sb.WriteString("echo \"st=$?\"\n")
				sb.WriteString("echo \"A ${!a[*]} : ${a[*]}\"\n")
				vals := []string{"p", "q", "r"}
				k := int(z.Int64())
				if k < 3 {
					vals[k] += "5"
					want.WriteString("A 0 1 2 : " + strings.Join(vals, " ") + "\n")
				} else {
					want.WriteString("A 0 1 2 " + z.String() + " : p q r 5\n")
				}
				break
			}
			sb.WriteString("a[ " + src + " ]=5\n")
			if er == rOK {
				want.WriteString("st=0\n")
			} else {
				c.refErr = true
				want.WriteString("st=1\n")
			}
			sb.WriteString("echo \"st=$?\"\n")
			sb.WriteString("echo \"A ${!a[*]} : ${a[*]}\"\n")
			if er == rOK {
				want.WriteString("A " + z.String() + " : 5\n")
			} else {
				want.WriteString("A  : \n")
			}
		}
		if c.ctx != cSub {
			sb.WriteString("echo \"st=$?\"\n")
		}
	case cLet:
		n := 1 + r.IntN(2)
		var args []string
		st := 1
		for j := 0; j < n; j++ {
			e := gen(r, 1+r.IntN(3), true)
			var ts []string
			toks(e, 15, &ts)
			s := strings.Join(ts, "")
			if strings.ContainsAny(s, "()") || strings.Contains(s, "+++") || strings.Contains(s, "---") ||
				strings.Contains(s, "-=-") || strings.Contains(s, "+-") && false {
				return nil
			}
			// adjacent operator tokens that would fuse into another token
			for k := 1; k < len(ts); k++ {
				if !isWordTok(ts[k-1]) && !isWordTok(ts[k]) {
					return nil
				}
			}
			c.exprs = append(c.exprs, e)
			z, er := renv.eval(e, 0)
			if er == rUndef || er == rDeep || er == rSyntax {
				return nil
			}
			args = append(args, s)
			if er != rOK {
				c.refErr = true
				st = 1
				break
			}
			if z.Sign() != 0 {
				st = 0
			} else {
				st = 1
			}
		}
		sb.WriteString("let " + strings.Join(args, " ") + "\n")
		sb.WriteString("echo \"st=$?\"\n")
		want.WriteString(fmt.Sprintf("st=%d\n", st))
	case cFor:
		// for (( i = A ; i CMP B ; POST )), simulated by the reference evaluator with a bound on the
		// number of iterations.  Variants: plain body; body that leaves or restarts the loop with
		// break / continue when a condition on the loop variable holds; two nested loops whose inner
		// body does break [N] / continue [N].  The loop variables are read AFTER the loop (dump).
		// Every body ends in a succeeding command (KF-C26-3: a failing last command stops the loop).
		outer := genLoopHeader(r, "i", r.IntN(2) == 0)
		c.exprs = []*node{outer.ini, outer.cond, outer.post}
		variant := r.IntN(3)
		var inner *loopSpec
		var brk *node
		act := ""
		switch variant {
		case 1:
			brk = genBrkCond(r, "i")
			act = hx.Pick(r, []string{"break", "break", "continue", "break 1", "continue 1"})
			c.exprs = append(c.exprs, brk)
		case 2:
			inner = genLoopHeader(r, "j", true)
			brk = genBrkCond(r, hx.Pick(r, []string{"i", "j", "j"}))
			act = hx.Pick(r, []string{"break", "break 2", "continue", "continue 2", "break 2", "continue 2"})
			c.exprs = append(c.exprs, inner.ini, inner.cond, inner.post, brk)
		}
		if !simLoops(renv, outer, inner, brk, act, &want) {
			return nil
		}
		hdr := func(l *loopSpec) string {
			return "for (( " + text(l.ini, tight) + " ; " + text(l.cond, tight) + " ; " + text(l.post, tight) + " ))"
		}
		switch variant {
		case 0:
			sb.WriteString(hdr(outer) + "; do echo \"i=$i\"; done\n")
		case 1:
			sb.WriteString(hdr(outer) + "; do\n  if (( " + text(brk, tight) + " )); then " + act + "; fi\n  echo \"i=$i\"\ndone\n")
		case 2:
			sb.WriteString(hdr(outer) + "; do\n  " + hdr(inner) + "; do\n    if (( " + text(brk, tight) + " )); then " + act +
				"; fi\n    echo \"i=$i j=$j\"\n  done\n  echo \"o=$i\"\ndone\n")
		}
		sb.WriteString("echo \"st=$?\"\n")
		want.WriteString("st=0\n")
	}
	sb.WriteString(dumpLine + "\n")
	want.WriteString(dumpOf(renv))
	c.script = sb.String()
	c.want = want.String()
	for _, e := range c.exprs {
		if usesNonLit(e, init, map[string]bool{}) {
			c.nonLit = true
		}
	}
	return c
}

func pinnedOracle() []*oCase {
	mk := func(pinned, script string) *oCase {
		return &oCase{ctx: cEcho, script: script + dumpLine + "\n", pinned: pinned}
	}
	return []*oCase{
		mk("arith_var_holds_expression", "x='1+2'\necho \"v=$((x))\"\necho \"st=$?\"\n"),
		mk("arith_var_holds_expression", "x='y * 2'\ny=4\n(( z = x + 1 ))\necho \"st=$?\"\n"),
		mk("arith_let_quoted_string", "let \"x = 1 + 2\"\necho \"st=$?\"\n"),
		mk("arith_let_quoted_string", "let 'y = 5 < 7' 'z = y + 1'\necho \"st=$?\"\n"),
		mk("arith_invalid_literal_is_zero", "echo \"v=$(( 08 ))\"\necho \"st=$?\"\n"),
		mk("arith_invalid_literal_is_zero", "(( x = 2#12 ))\necho \"st=$?\"\n"),
		mk("arith_invalid_literal_is_zero", "(( x = 1a + 1 ))\necho \"st=$?\"\n"),
		mk("arith_error_status_in_expansion", "x=1\necho \"v=$(( x = 7 , 1 / 0 ))\"\necho \"st=$?\"\n"),
		mk("arith_error_status_in_expansion", "y=$(( 2 ** -1 ))\necho \"st=$?\"\n"),
		mk("arith_array_element_assign_lost", "a=(1 2 3)\n(( a[1] = 5 ))\necho \"st=$? ${a[*]}\"\n"),
		mk("arith_array_element_assign_lost", "a=(1 2 3)\n(( a[0]++ ))\necho \"st=$? ${a[*]}\"\n"),
		// bash pre-increments v before it reports the error; only the error status is compared
		mk("", "v=1\n(( ++v++ ))\necho \"st=$?\"\n"),
		mk("", "a=(4 5 6)\ni=1\necho \"v=$(( a[i] + a[i+1] * a[0] ))\"\necho \"st=$?\"\n"),
		mk("", "x=3\necho \"v=$(( x++ + ++x )) $(( x-- - --x )) $((x))\"\necho \"st=$?\"\n"),
		mk("", "echo \"v=$(( 1 ? 2 : 3 ? 4 : 5 )) $(( 0 ? 2 : 0 ? 4 : 5 )) $(( 2 ** 3 ** 2 )) $(( -2 ** 2 )) $(( 7 - 2 - 1 )) $(( 1 << 2 + 1 )) $(( 1 | 2 ^ 3 & 4 ))\"\necho \"st=$?\"\n"),
		mk("", "echo \"v=$(( 36#Z )) $(( 37#a )) $(( 62#Z )) $(( 64#_@ )) $(( 0X1f )) $(( 017 )) $(( 2#101 ))\"\necho \"st=$?\"\n"),
		mk("", "x=' 12 '\ny=-0x10\necho \"v=$(( x + y ))\"\necho \"st=$?\"\n"),
		mk("", "x=y\ny=z\nz=5\necho \"v=$(( x * 2 ))\"\necho \"st=$?\"\n"),
		mk("", "(( 1 / 0 ))\necho \"st=$?\"\nlet 1%0\necho \"st=$?\"\n(( 2 ** -1 ))\necho \"st=$?\"\n(( 0 && 1 / 0 ))\necho \"st=$?\"\n(( 1 || 1 / 0 ))\necho \"st=$?\"\n"),
		mk("", "for (( i = 0 , x = 10 ; i < 3 ; i++ , x -= 2 )); do echo \"i=$i x=$x\"; done\necho \"st=$?\"\n"),
		mk("", "for (( i = 0 ; i < 10 ; i++ )); do if (( i == 3 )); then break; fi; done\necho \"st=$? $i\"\n"),
		mk("", "n=0\nfor (( i = 0 ; ; i++ , n += 10 )); do if (( i >= 2 )); then break; fi; done\necho \"st=$? $i $n\"\n"),
		mk("", "for (( i = 0 ; i < 3 ; i++ )); do for (( j = 0 ; j < 3 ; j++ )); do if (( j == 1 )); then continue 2; fi; if (( i == 2 )); then break 2; fi; echo \"$i $j\"; done; done\necho \"st=$? $i $j\"\n"),
	}
}

func runInterp(script string) (out string, panicked bool, msg string, hang bool) {
	f, err := syntax.NewParser(syntax.Variant(syntax.LangBash)).Parse(strings.NewReader(script), "")
	if err != nil {
		return "PARSE ERROR: " + err.Error() + "\n", false, "", false
	}
	var ob, eb bytes.Buffer
	type res struct {
		p   bool
		msg string
	}
	done := make(chan res, 1)
	ctx, cancel := context.WithTimeout(context.Background(), 5*time.Second)
	defer cancel()
	go func() {
		p, m := hx.Try(func() {
			r, _ := interp.New(interp.StdIO(nil, &ob, &eb), interp.Env(expand.ListEnviron()))
			r.Run(ctx, f)
		})
		done <- res{p, m}
	}()
	select {
	case rr := <-done:
		return ob.String(), rr.p, rr.msg, false
	case <-time.After(30 * time.Second):
		return "", false, "", true
	}
}

const allVars = "x y z w u t i j a v"

func runBash(dir string, cases []*oCase) ([]string, error) {
	var sb strings.Builder
	for i, c := range cases {
		sb.WriteString("unset " + allVars + "\n")
		sb.WriteString(c.script)
		sb.WriteString(fmt.Sprintf("echo '=== %d'\n", i))
	}
	path := filepath.Join(dir, "cases.sh")
	if err := os.WriteFile(path, []byte(sb.String()), 0o644); err != nil {
		return nil, err
	}
	cmd := exec.Command("/usr/bin/env", "-i", "LC_ALL=C.UTF-8", "PATH=/usr/bin:/bin", "timeout", "120", "/usr/bin/bash", path)
	cmd.Dir = dir
	var ob bytes.Buffer
	cmd.Stdout = &ob
	cmd.Run()
	outs := make([]string, len(cases))
	rest := ob.String()
	for i := range cases {
		mark := fmt.Sprintf("=== %d\n", i)
		j := strings.Index(rest, mark)
		if j < 0 {
			return outs, fmt.Errorf("bash output lacks marker %d", i)
		}
		outs[i] = rest[:j]
		rest = rest[j+len(mark):]
	}
	return outs, nil
}

type oracleObs struct {
	Ctx     string   `json:"ctx"`
	Script  string   `json:"script"`
	Interp  string   `json:"interp"`
	Bash    string   `json:"bash"`
	Ref     string   `json:"ref"`
	Pinned  string   `json:"pinned"`
	NonLit  bool     `json:"nonlit"`
	RefErr  bool     `json:"ref_err"`
	Panic   string   `json:"panic,omitempty"`
	Fails   []string `json:"fails"`
	Class   string   `json:"class"`
	RefBad  bool     `json:"ref_bad"` // the reference evaluator disagrees with real bash
	Nontriv bool     `json:"nontriv"`
}

func modeOracle(o hx.Opts) {
	r := hx.Rand(o.Seed, 2002)
	dir, err := os.MkdirTemp("", "c20-")
	if err != nil {
		panic(err)
	}
	defer os.RemoveAll(dir)
	var cases []*oCase
	for i := 0; len(cases) < o.N && i < o.N*20; i++ {
		if c := genOracle(r, i); c != nil {
			cases = append(cases, c)
		}
	}
	cases = append(cases, pinnedOracle()...)
	// the pinned regression corpus (ordinary inputs, same oracles) runs first, on every seed and tier
	if txt, ok := corpusFile(o, "regress_oracle.txt"); ok {
		var reg []*oCase
		for _, blk := range strings.Split(txt, "\n----\n") {
			var sb strings.Builder
			for _, line := range strings.Split(blk, "\n") {
				if line == "" || strings.HasPrefix(line, "#") {
					continue
				}
				sb.WriteString(line + "\n")
			}
			if sb.Len() > 0 {
				reg = append(reg, &oCase{ctx: cEcho, script: sb.String() + dumpLine + "\n"})
			}
		}
		cases = append(reg, cases...)
	}
	const batch = 250
	for s := 0; s < len(cases); s += batch {
		part := cases[s:min(s+batch, len(cases))]
		bouts, err := runBash(dir, part)
		if err != nil {
			hx.Emit(map[string]any{"harness_error": err.Error()})
			continue
		}
		for i, c := range part {
			ob := oracleObs{Ctx: ctxNames[c.ctx], Script: c.script, Bash: bouts[i], Ref: c.want, Pinned: c.pinned,
				NonLit: c.nonLit, RefErr: c.refErr}
			out, p, msg, hang := runInterp(c.script)
			if hang {
				// a timeout alone is no verdict: once more, alone
				out, p, msg, hang = runInterp(c.script)
			}
			if len(out) > 3000 {
				out = out[:3000] + "...[truncated]"
			}
			ob.Interp = out
			ob.Nontriv = len(c.exprs) > 0 && c.exprs[0].k != kLit && c.exprs[0].k != kVar
			if c.want != "" && c.want != ob.Bash {
				ob.RefBad = true
			}
			switch {
			case hang:
				ob.Fails = append(ob.Fails, "interp_hangs")
			case p:
				ob.Panic = msg
				ob.Fails = append(ob.Fails, "interp_panics")

			case out != ob.Bash:
				ob.Fails = append(ob.Fails, "differs_from_bash")
				switch {
				case c.pinned != "":
					ob.Class = c.pinned
				case c.nonLit:
					ob.Class = "arith_var_holds_expression"
				case c.refErr && (c.ctx == cEcho && strings.Replace(out, "st=0\n", "st=1\n", 1) == ob.Bash ||
					c.ctx == cSub && strings.Replace(out, "st=0\nA 0 : 5\n", "st=1\nA  : \n", 1) == ob.Bash):
					ob.Class = "arith_error_status_in_expansion"
				}
			}
			if c.pinned != "" && c.pinned != ob.Class {
				// a listed witness that no longer fails the same way
				ob.Fails = append(ob.Fails, "pinned_witness_changed")
				ob.Class = ""
			}
			hx.Emit(ob)
		}
	}
}

func main() {
	o := hx.ParseArgs()
	defer hx.Flush()
	switch o.Mode {
	case "code":
		modeCode(o)
	case "oracle":
		modeOracle(o)
	default:
		fmt.Fprintln(os.Stderr, "modes: code, oracle")
		os.Exit(2)
	}
}
