// c31: "Cancelling the context stops any program promptly" — Go side.
//
//	worker                    subprocess that runs programs with interp.Runner (see hxc26)
//	gen  -seed S -n N         generated looping / blocking programs x cancellation times:
//	                          latency from cancel to the return of Run, or hang (watchdog)
//	core -seed S -n N         CORE programs (coq/Interp/Core.v) repeated in a loop, cancelled
//	                          deterministically inside the Write that brings stdout to B bytes:
//	                          stdout and variables at return, for the code leg against Flags.v
//	kill                      prints the default exec kill timeout read from the code's behaviour
package main

import (
	"fmt"
	"math/rand/v2"
	"os"
	"strings"

	"mvdan.cc/sh/v3/syntax"
	"verifharness/hx"
	"verifharness/hxc26"
)

type caseOut struct {
	Src      string `json:"src"`
	Coq      string `json:"coq,omitempty"`
	Kind     string `json:"kind"`
	Class    string `json:"class,omitempty"`
	CancelMs int    `json:"cancel_ms"`
	Bytes    int    `json:"bytes,omitempty"`
	Stdin    string `json:"stdin,omitempty"`
	// BlockedLast: decided on the syntax tree — the last command the main thread can be executing is a
	// blocking builtin (read, wait, select) or a loop whose condition is such a read (class
	// blocked_last_statement_returns_nil of KF-C31-3)
	BlockedLast bool       `json:"blocked_last"`
	Pre         string     `json:"pre,omitempty"`          // program run first on the same Runner, own live context
	ExecKillMs  *int       `json:"exec_kill_ms,omitempty"` // real external children via DefaultExecHandler(ms)
	Lang        string     `json:"lang,omitempty"`
	Files       []string   `json:"files,omitempty"` // names of the scratch files the program runs
	Go          hxc26.Resp `json:"go"`
}

// lastIsBlocking follows the LAST statement of a list down to the command the main thread ends in.
func lastIsBlocking(stmts []*syntax.Stmt, funcs map[string]*syntax.Stmt, depth int) bool {
	if len(stmts) == 0 || depth > 8 {
		return false
	}
	st := stmts[len(stmts)-1]
	if st.Background || st.Disown {
		return false
	}
	switch c := st.Cmd.(type) {
	case *syntax.CallExpr:
		if len(c.Args) == 0 {
			return false
		}
		switch name := c.Args[0].Lit(); name {
		case "read", "wait":
			return true
		default:
			if body, ok := funcs[name]; ok {
				return lastIsBlocking([]*syntax.Stmt{body}, funcs, depth+1)
			}
		}
	case *syntax.Block:
		return lastIsBlocking(c.Stmts, funcs, depth+1)
	case *syntax.Subshell:
		return lastIsBlocking(c.Stmts, funcs, depth+1)
	case *syntax.BinaryCmd:
		if c.Op == syntax.Pipe || c.Op == syntax.PipeAll {
			return lastIsBlocking([]*syntax.Stmt{c.Y}, funcs, depth+1) // the last stage runs in the main thread
		}
	case *syntax.WhileClause:
		return lastIsBlocking(c.Cond, funcs, depth+1) // while read ...: ends when the read fails
	case *syntax.ForClause:
		return c.Select // select reads its reply
	}
	return false
}

func blockedLast(src string) bool { return blockedLastLang(src, "") }

func blockedLastLang(src, lang string) bool {
	variant := syntax.LangBash
	if lang == "zsh" {
		variant = syntax.LangZsh
	}
	f, err := syntax.NewParser(syntax.Variant(variant)).Parse(strings.NewReader(src), "")
	if err != nil {
		return false
	}
	funcs := map[string]*syntax.Stmt{}
	syntax.Walk(f, func(n syntax.Node) bool {
		if fd, ok := n.(*syntax.FuncDecl); ok && fd.Name != nil {
			funcs[fd.Name.Value] = fd.Body
		}
		return true
	})
	return lastIsBlocking(f.Stmts, funcs, 0)
}

// ---- generated looping / blocking programs ---------------------------------------------

type tmpl struct {
	kind  string
	src   string
	stdin string
	class string // known-finding class, "" if Run is expected to return
	lang  string // "" bash, "zsh"
	files map[string]string
}

var bases = []tmpl{
	{kind: "while_true", src: "while :; do :; done"},
	{kind: "while_arith", src: "x=0; while true; do x=$((x+1)); done"},
	{kind: "until_echo", src: "until false; do echo x; done"},
	{kind: "for_cstyle", src: "for ((;;)); do :; done"},
	{kind: "for_nested_words", src: "for a in {1..2000}; do for b in {1..2000}; do for c in 1 2 3 4 5; do :; done; done; done"},
	{kind: "func_loop", src: "f() { while :; do g; done; }; g() { for i in 1 2 3; do :; done; }; f"},
	{kind: "func_nested_loops", src: "f() { for i in 1 2 3; do while :; do for j in a b; do :; done; done; done; }; f"},
	{kind: "subshell_loop", src: "( while :; do :; done )"},
	{kind: "cmdsubst_loop", src: "x=$(while :; do :; done); echo $x"},
	{kind: "if_loop", src: "if while :; do :; done; then echo a; fi"},
	{kind: "case_loop", src: "case x in x) while :; do :; done;; esac"},
	{kind: "andor_loop", src: "true && until false; do :; done || echo n"},
	{kind: "errexit_loop", src: "set -e; while :; do true; done"},
	{kind: "trap_exit_loop", src: "trap 'while :; do :; done' EXIT; exit 3"},
	{kind: "read_blocked", src: "read x; echo got $x", stdin: "pipe"},
	{kind: "while_read_blocked", src: "while read line; do echo $line; done", stdin: "pipe"},
	{kind: "read_in_func", src: "f() { read -r a b; }; f; echo $a", stdin: "pipe"},
	{kind: "select_blocked", src: "select x in a b; do echo $x; done", stdin: "pipe"},
	{kind: "mapfile_blocked", src: "mapfile lines; echo ${#lines[@]}", stdin: "pipe"},
	{kind: "bg_loop_wait", src: "{ while :; do :; done; } & wait"},
	{kind: "bg_two_loops_wait", src: "while :; do :; done & until false; do :; done & wait"},
	{kind: "bg_loop_wait_pid", src: "while :; do :; done & wait g1"},
	{kind: "bg_read_wait", src: "read x & wait", stdin: "pipe"},
	{kind: "pipe_loops", src: "while :; do :; done | while :; do :; done"},
	{kind: "pipe_writer_loop", src: "while :; do echo x; done | while read l; do :; done"},
	{kind: "pipe_reader_blocked", src: "while :; do :; done | read x"},
	{kind: "procsubst_read_loop", src: "while read l; do :; done < <(while :; do echo x; done)"},
	{kind: "procsubst_out_loop", src: "while :; do echo x; done > >(while read l; do :; done)"},
	{kind: "herestring_loop", src: "while :; do read a <<< hello; done"},
	{kind: "heredoc_loop", src: "while :; do read a <<EOF\nhello\nEOF\ndone"},
	{kind: "procsubst_never_read_then_wait", src: ": <(echo hi); wait", class: "procsubst_fifo_never_opened_then_wait"},
	{kind: "procsubst_never_read_loop_then_wait", src: ": <(while :; do :; done); wait", class: "procsubst_fifo_never_opened_then_wait"},
	{kind: "procsubst_never_written_then_wait", src: ": >(read x); wait", class: "procsubst_fifo_never_opened_then_wait"},
	{kind: "procsubst_never_read_no_wait", src: ": <(echo hi); while :; do :; done"},
	// zsh: jobs disowned at once with &! and &| (parsed with LangZsh)
	{kind: "zsh_disown_loop_wait", lang: "zsh", src: "{ while :; do echo x; done; } &! wait"},
	{kind: "zsh_disown_pipe_loop_wait", lang: "zsh", src: "while :; do :; done &| wait"},
	{kind: "zsh_disown_writer_main_loop", lang: "zsh", src: "{ while :; do echo y; done; } &! while :; do :; done"},
	{kind: "zsh_disown_two_jobs", lang: "zsh", src: "until false; do echo a; done &| { while :; do echo b; done; } &! wait"},
	{kind: "bg_writer_main_loop", src: "{ while :; do echo y; done; } & while :; do :; done"},
}

// wrap nests a base program into more control flow (the unwinding has to pass through it)
func wrap(r *rand.Rand, t tmpl) tmpl {
	if strings.Contains(t.src, "\n") || t.class != "" || t.lang != "" {
		return t
	}
	for n := r.IntN(3); n > 0; n-- {
		switch r.IntN(6) {
		case 0:
			t.src = "{ " + t.src + "; echo after; }"
		case 1:
			t.src = "w() { " + t.src + "; }; w; echo after"
		case 2:
			t.src = "for k in 1 2; do " + t.src + "; done"
		case 3:
			t.src = "if true; then " + t.src + "; fi; echo after"
		case 4:
			t.src = "( " + t.src + " ); echo after"
		case 5:
			t.src = "echo start; " + t.src
		}
		t.kind += "+w"
	}
	return t
}

var cancelTimes = []int{0, 1, 3, 10, 30, 100, 250}

// programs whose main thread sits in a REAL external child (harmless: sleep) when the context is cancelled;
// run through interp.DefaultExecHandler(t) for several kill timeouts t
var execBases = []tmpl{
	{kind: "exec_sleep", src: "sleep 30"},
	// one process that ignores SIGINT (exec: no grandchild): only SIGKILL ends it
	{kind: "exec_sleep_ignores_int", src: `/bin/sh -c 'trap "" INT; exec sleep 30'`},
	{kind: "exec_sleep_in_func_loop", src: "f() { while :; do sleep 30; done; }; f"},
	{kind: "exec_sleep_ignores_int_in_subst", src: `x=$(/bin/sh -c 'trap "" INT; exec sleep 30'); echo $x`},
	{kind: "exec_sleep_bg_wait", src: "sleep 30 & wait"},
	// the child forks a grandchild that inherits the (non-file) stdout and survives the killed child
	{kind: "exec_grandchild_holds_pipe", src: `/bin/sh -c 'trap "" INT; sleep 30; :'`},
	{kind: "exec_grandchild_holds_pipe_in_subst", src: `x=$(/bin/sh -c 'trap "" INT; sleep 30; :'); echo $x`},
	// an executable script WITHOUT a #! line: the exec handler runs it with a nested interpreter (ENOEXEC),
	// which must use the same kill timeout for the child it starts
	{kind: "exec_sleep_ignores_int_via_noshebang", src: "./noshebang.sh", files: noShebang},
	{kind: "exec_sleep_ignores_int_via_noshebang_bg_wait", src: "./noshebang.sh & wait", files: noShebang},
	{kind: "exec_sleep_ignores_int_via_noshebang_in_subst", src: "x=$(./noshebang.sh); echo $x", files: noShebang},
}

var noShebang = map[string]string{"noshebang.sh": "/bin/sh -c 'trap \"\" INT; exec sleep 30'\n"}

func fileNames(m map[string]string) []string {
	var l []string
	for k := range m {
		l = append(l, k)
	}
	return l
}

var execKillMs = []int{-1, 0, 150, 2000}

// preludes: a first program run on the same Runner with another, still alive, context
var preludes = []string{
	"echo warm $(echo up)",
	"v=$(echo 1); f0() { echo $(echo in); }; f0",
	"while read l; do :; done < <(echo x)",
}

func main() {
	if len(os.Args) > 1 && os.Args[1] == "worker" {
		hxc26.WorkerMain()
		return
	}
	o := hx.ParseArgs()
	defer hx.Flush()
	switch o.Mode {
	case "gen":
		r := hx.Rand(o.Seed, 31)
		var cases []caseOut
		var reqs []hxc26.Req
		addExec := func(t tmpl, ms int, kill int) {
			k := kill
			cases = append(cases, caseOut{Src: t.src, Kind: t.kind, CancelMs: ms, ExecKillMs: &k, BlockedLast: blockedLast(t.src), Files: fileNames(t.files)})
			extra := 0
			if kill > 0 {
				extra = kill
			}
			reqs = append(reqs, hxc26.Req{Src: t.src, CancelMs: ms, TimeoutMs: ms + 60000, HardMs: ms + extra + 6500, ExecKillMs: &k, Files: t.files})
		}
		addPre := func(t tmpl, ms int, pre string) {
			cases = append(cases, caseOut{Src: t.src, Kind: t.kind + "+reuse", Class: t.class, CancelMs: ms, Stdin: t.stdin, BlockedLast: blockedLastLang(t.src, t.lang), Pre: pre, Lang: t.lang})
			reqs = append(reqs, hxc26.Req{Src: t.src, CancelMs: ms, TimeoutMs: ms + 60000, HardMs: ms + 6500, Stdin: t.stdin, Pre: pre, Lang: t.lang, CheckLate: strings.Contains(t.src, "&")})
		}
		add := func(t tmpl, ms int) {
			cases = append(cases, caseOut{Src: t.src, Kind: t.kind, Class: t.class, CancelMs: ms, Stdin: t.stdin, BlockedLast: blockedLastLang(t.src, t.lang), Lang: t.lang})
			// the context deadline is far behind the cancellation; the worker's watchdog fires
			// 6.5 s after the cancellation (kill timeout 2 s + margin 2 s + 2.5 s): still running = hang
			reqs = append(reqs, hxc26.Req{Src: t.src, CancelMs: ms, TimeoutMs: ms + 60000, HardMs: ms + 6500, Stdin: t.stdin, Lang: t.lang, CheckLate: strings.Contains(t.src, "&")})
		}
		// every base once (rotating cancellation time), then random wrapped ones
		for i, t := range bases {
			add(t, cancelTimes[(i+int(o.Seed))%len(cancelTimes)])
		}
		// the Runner reused for a second Run with another context (no Reset): every base that loops or blocks
		// inside a command/process substitution, plus a rotating third of the others
		for i, t := range bases {
			inSubst := strings.Contains(t.src, "$(") || strings.Contains(t.src, "<(") || strings.Contains(t.src, ">(")
			if t.class == "" && (inSubst || (i+int(o.Seed))%3 == 0) {
				ms := cancelTimes[(i+2*int(o.Seed))%len(cancelTimes)]
				if inSubst {
					// late enough for the program to be inside its substitution on every seed
					ms = cancelTimes[3+(i+int(o.Seed))%4]
				}
				addPre(t, ms, preludes[(i+int(o.Seed))%len(preludes)])
			}
		}
		// real external children x kill timeouts (cancel after the child has surely started)
		for i, t := range execBases {
			for j, k := range execKillMs {
				// a child that only SIGKILL ends meets every kill timeout on every seed; the others rotate
				// pinned: every real-child template meets every kill timeout on EVERY seed (the scripts without #!
				// only the two positive ones); nothing here depends on o.Seed
				_, _ = i, j
				if t.files == nil || k == 150 || k == 2000 {
					addExec(t, 150+50*((i+j)%3), k)
				}
			}
		}
		for i := len(cases); i < o.N; i++ {
			t := wrap(r, bases[r.IntN(len(bases))])
			if t.class == "" && r.IntN(4) == 0 {
				addPre(t, cancelTimes[r.IntN(len(cancelTimes))], preludes[r.IntN(len(preludes))])
			} else {
				add(t, cancelTimes[r.IntN(len(cancelTimes))])
			}
		}
		resps := hxc26.Pool{N: 8}.RunAll(reqs)
		// a slow return under load is not a verdict: re-run alone before it counts
		for i, rp := range resps {
			slack := int64(600000) // re-run alone when the return came later than the kill timeout + 0.6 s
			if k := reqs[i].ExecKillMs; k != nil && *k > 0 {
				slack += int64(*k) * 1000
			}
			if !rp.Hang && rp.Cancelled && rp.LatencyUs > slack {
				again := hxc26.Pool{N: 1}.RunAll(reqs[i : i+1])[0]
				if !again.Hang && again.LatencyUs < rp.LatencyUs {
					resps[i] = again
				}
			}
		}
		for i := range cases {
			cases[i].Go = resps[i]
			hx.Emit(cases[i])
		}
	case "core":
		r := hx.Rand(o.Seed, 3100)
		g := &hxc26.Gen{R: r}
		var cases []caseOut
		var reqs []hxc26.Req
		for i := 0; i < o.N; i++ {
			p := g.Program()
			src := hxc26.ListSrc(p, "; ")
			// repeat the program: for r in a b c d; do { P; }; done   (as a core term)
			wsrc := "for r in a b c d; do { " + src + "; }; done"
			wcoq := fmt.Sprintf(`[Stmt false (CFor (bs "r") [[WLit (bs "a")];[WLit (bs "b")];[WLit (bs "c")];[WLit (bs "d")]] [Stmt false (CBlock %s)])]`, hxc26.ListCoq(p))
			nb := 1 + r.IntN(60)
			cases = append(cases, caseOut{Src: wsrc, Coq: wcoq, Kind: "core", Bytes: nb, CancelMs: -1})
			reqs = append(reqs, hxc26.Req{Src: wsrc, CancelMs: -1, CancelBytes: nb, TimeoutMs: 8000, Vars: append(hxc26.CoreVars(), "r")})
		}
		resps := hxc26.Pool{N: 6}.RunAll(reqs)
		for i := range cases {
			cases[i].Go = resps[i]
			hx.Emit(cases[i])
		}
	}
}
