// c29: Runner.Run leaves the syntax tree and the caller's Environ untouched.
//
//	gen    -seed S -n N          generated programs (search / law leg)
//	corpus -in REPO              program literals of REPO/interp/interp_test.go that pass the safety filter
//	alias  -seed S -n N          code leg of the Coq model Interp/TreeRegion.v: alias expansion of literal
//	                             argument lists; emits the alias table, the call and the fields Go produced
//
// Per case one JSON line with the observation and the verdict (`fails`).
package main

import (
	"bytes"
	"crypto/sha1"
	"encoding/hex"
	"fmt"
	"math/rand/v2"
	"sort"
	"strconv"
	"strings"

	"mvdan.cc/sh/v3/expand"
	"mvdan.cc/sh/v3/interp"
	"mvdan.cc/sh/v3/syntax"
	"mvdan.cc/sh/v3/syntax/typedjson"
	"verifharness/hx"
	"verifharness/hxsh"
)

// recEnv is the caller's Environ: Get and Each only, counted. It holds string,
// indexed and associative variables whose slices have spare capacity.
type recEnv struct {
	names []string
	vars  map[string]expand.Variable
	gets  int
	eachs int
}

func (e *recEnv) Get(name string) expand.Variable {
	e.gets++
	return e.vars[name]
}

func (e *recEnv) Each(f func(string, expand.Variable) bool) {
	e.eachs++
	for _, n := range e.names {
		if !f(n, e.vars[n]) {
			return
		}
	}
}

// recWriteEnv additionally offers Set, which Run must never call.
type recWriteEnv struct {
	recEnv
	sets []string
}

func (e *recWriteEnv) Set(name string, vr expand.Variable) error {
	e.sets = append(e.sets, name)
	return nil
}

func newRecEnv(s *hxsh.Scratch) *recEnv {
	e := &recEnv{vars: map[string]expand.Variable{}}
	for _, p := range s.EnvPairs() {
		n, v, _ := strings.Cut(p, "=")
		e.vars[n] = expand.Variable{Set: true, Exported: true, Kind: expand.String, Str: v}
	}
	list := make([]string, 3, 8)
	copy(list, []string{"e0", "e1", "e2"})
	list2 := append(make([]string, 0, 8), "s0", "s1", "s2", "cap3", "cap4")[:3]
	idx := append(make([]int, 0, 8), 0, 2, 5, 77, 78)[:3]
	e.vars["brr"] = expand.Variable{Set: true, Kind: expand.Indexed, List: list}
	e.vars["sparse"] = expand.Variable{Set: true, Kind: expand.Indexed, List: list2, Indexes: idx}
	e.vars["m"] = expand.Variable{Set: true, Kind: expand.Associative, Map: map[string]string{"k0": "mv0", "k9": "mv9"}}
	e.vars["y"] = expand.Variable{Set: true, Exported: true, Kind: expand.String, Str: "envy"}
	e.vars["ro1"] = expand.Variable{Set: true, ReadOnly: true, Kind: expand.String, Str: "envro"}
	e.vars["nref"] = expand.Variable{Set: true, Kind: expand.NameRef, Str: "y"}
	for n := range e.vars {
		e.names = append(e.names, n)
	}
	sort.Strings(e.names)
	return e
}

// dump renders the full contents, including the spare capacity of slices.
func (e *recEnv) dump() string {
	var sb strings.Builder
	for _, n := range e.names {
		v := e.vars[n]
		fmt.Fprintf(&sb, "%s:{%v %v %v %v %d %q %q %v", n, v.Set, v.Local, v.Exported, v.ReadOnly, v.Kind, v.Str,
			v.List[:cap(v.List)], v.Indexes[:cap(v.Indexes)])
		keys := make([]string, 0, len(v.Map))
		for k := range v.Map {
			keys = append(keys, k)
		}
		sort.Strings(keys)
		for _, k := range keys {
			fmt.Fprintf(&sb, " %q=%q", k, v.Map[k])
		}
		fmt.Fprintf(&sb, " len=%d,%d}\n", len(v.List), len(v.Indexes))
	}
	fmt.Fprintf(&sb, "names=%q", e.names)
	return sb.String()
}

func treeJSON(f *syntax.File) (out string) {
	// a tree the interpreter has damaged may not be encodable at all
	defer func() {
		if e := recover(); e != nil {
			out = fmt.Sprintf("!panic:%v", e)
		}
	}()
	var b bytes.Buffer
	if err := typedjson.Encode(&b, f); err != nil {
		return "!err:" + err.Error()
	}
	return b.String()
}

func treePrint(f *syntax.File) (out string) {
	defer func() {
		if e := recover(); e != nil {
			out = fmt.Sprintf("!panic:%v", e)
		}
	}()
	var b bytes.Buffer
	if err := syntax.NewPrinter().Print(&b, f); err != nil {
		return "!err:" + err.Error()
	}
	return b.String()
}

type obs struct {
	Src      string   `json:"src"` // hex
	Kind     string   `json:"kind"`
	Key      string   `json:"key"`
	Skip     string   `json:"skip,omitempty"`
	Feats    []string `json:"feats,omitempty"`
	Status   int      `json:"status"`
	Outcome  string   `json:"outcome,omitempty"`
	OutLen   int      `json:"outlen"`
	Gets     int      `json:"gets"`
	Eachs    int      `json:"eachs"`
	WriteEnv bool     `json:"writeenv"`
	Stmts    int      `json:"stmts"`
	Fails    []string `json:"fails"`
	Detail   string   `json:"detail,omitempty"`
}

func firstDiff(a, b string) string {
	i := 0
	for i < len(a) && i < len(b) && a[i] == b[i] {
		i++
	}
	lo := max(0, i-60)
	return fmt.Sprintf("at %d: before %q after %q", i, a[lo:min(len(a), i+80)], b[lo:min(len(b), i+80)])
}

func runCase(s *hxsh.Scratch, src, kind string, idx int, feats []string) obs {
	h := sha1.Sum([]byte(src))
	o := obs{Src: hx.Hex(src), Kind: kind, Key: hex.EncodeToString(h[:6]), Feats: feats, Fails: []string{}}
	file, err := hxsh.Parse(src)
	if err != nil {
		o.Skip = "parse: " + err.Error()
		return o
	}
	if kind == "corpus" {
		if why := hxsh.Unsafe(src, file); why != "" {
			o.Skip = "unsafe: " + why
			return o
		}
	}
	o.Stmts = len(file.Stmts)
	beforeJSON, beforePrint := treeJSON(file), treePrint(file)

	s.Wipe()
	env := newRecEnv(s)
	wenv := &recWriteEnv{recEnv: *newRecEnv(s)}
	o.WriteEnv = idx%2 == 1
	var penv expand.Environ = env
	cur := env
	if o.WriteEnv {
		penv = wenv
		cur = &wenv.recEnv
	}
	envBefore := cur.dump()
	var out, errw hxsh.ConcBuffer
	var r *interp.Runner
	if p, msg := hx.Try(func() {
		var err error
		r, err = interp.New(s.Options(penv, &out, &errw, "--", "p1", "p2 q", "p3")...)
		if err != nil {
			panic(err)
		}
	}); p {
		o.Skip = "new: " + msg
		return o
	}
	oc := hxsh.Run(r, file)
	o.Status, o.Outcome, o.OutLen = oc.Status, "", len(out.String())
	o.Gets, o.Eachs = cur.gets, cur.eachs
	if oc.Bad() {
		// background goroutines may still be running: nothing can be compared reliably
		o.Skip = "run: " + oc.String()
		return o
	}
	afterJSON, afterPrint := treeJSON(file), treePrint(file)
	if afterJSON != beforeJSON {
		o.Fails = append(o.Fails, "tree_contents_changed")
		o.Detail += "json " + firstDiff(beforeJSON, afterJSON) + "; "
	}
	if afterPrint != beforePrint {
		o.Fails = append(o.Fails, "tree_print_changed")
		o.Detail += "print " + firstDiff(beforePrint, afterPrint) + "; "
	}
	if d := cur.dump(); d != envBefore {
		o.Fails = append(o.Fails, "env_contents_changed")
		o.Detail += "env " + firstDiff(envBefore, d) + "; "
	}
	if len(wenv.sets) > 0 {
		o.Fails = append(o.Fails, "env_set_called")
		o.Detail += fmt.Sprintf("Set%q; ", wenv.sets)
	}
	// a tree parsed afresh from the same source must still be equal to the used one
	if f2, err := hxsh.Parse(src); err == nil && idx%16 == 0 {
		if j := treeJSON(f2); j != afterJSON && afterJSON == beforeJSON {
			o.Fails = append(o.Fails, "harness_nondeterministic_json")
		}
	}
	// aliasing detector: the same tree on a second fresh runner gives the same output
	s.Wipe()
	var out2, errw2 hxsh.ConcBuffer
	r2, err := interp.New(s.Options(newRecEnv(s), &out2, &errw2, "--", "p1", "p2 q", "p3")...)
	if err == nil {
		oc2 := hxsh.Run(r2, file)
		if !oc2.Bad() {
			if out2.String() != out.String() || errw2.String() != errw.String() || oc2.Status != oc.Status {
				o.Fails = append(o.Fails, "second_run_differs")
				o.Detail += "out " + firstDiff(out.String()+"\x00"+errw.String(), out2.String()+"\x00"+errw2.String()) + "; "
			}
			if j := treeJSON(file); j != beforeJSON && afterJSON == beforeJSON {
				o.Fails = append(o.Fails, "tree_contents_changed")
				o.Detail += "json(2nd run) " + firstDiff(beforeJSON, j) + "; "
			}
		}
	}
	return o
}

// ---- alias leg -----------------------------------------------------------

var aliasNames = []string{"a", "b", "c", "d"}
var plainWords = []string{"w1", "w2", "w3", "echo", "x"}

type aliasCase struct {
	// Defs: name -> (words, blank); in definition order (later overrides)
	Defs  [][]string `json:"defs"` // each: name, blank("1"/"0"), words...
	Args  []string   `json:"args"`
	Go    []string   `json:"go"` // fields observed (argv of the call), nil when the run failed
	Fails []string   `json:"fails"`
	Src   string     `json:"src"`
	Stat  string     `json:"stat,omitempty"`
}

func runAlias(s *hxsh.Scratch, r *rand.Rand) aliasCase {
	var c aliasCase
	var sb strings.Builder
	sb.WriteString("shopt -s expand_aliases\nshow() { printf '%s\\n' \"$@\"; }\n")
	for _, n := range append(append([]string{}, aliasNames...), plainWords...) {
		// every word is callable: it prints its name and arguments
		if n != "echo" {
			fmt.Fprintf(&sb, "%s() { show %s \"$@\"; }\n", n, n)
		}
	}
	sb.WriteString("echo() { show echo \"$@\"; }\n")
	nd := r.IntN(5)
	for i := 0; i < nd; i++ {
		name := hx.Pick(r, aliasNames)
		nw := r.IntN(4)
		ws := make([]string, nw)
		for j := range ws {
			if r.IntN(2) == 0 {
				ws[j] = hx.Pick(r, aliasNames)
			} else {
				ws[j] = hx.Pick(r, plainWords)
			}
		}
		blank := r.IntN(2) == 0
		val := strings.Join(ws, " ")
		b := "0"
		if blank {
			val += " "
			b = "1"
		}
		c.Defs = append(c.Defs, append([]string{name, b}, ws...))
		fmt.Fprintf(&sb, "alias %s='%s'\n", name, val)
	}
	na := 1 + r.IntN(4)
	for i := 0; i < na; i++ {
		if r.IntN(3) > 0 {
			c.Args = append(c.Args, hx.Pick(r, aliasNames))
		} else {
			c.Args = append(c.Args, hx.Pick(r, plainWords))
		}
	}
	sb.WriteString(strings.Join(c.Args, " ") + "\n")
	c.Src = sb.String()
	c.Fails = []string{}
	file, err := hxsh.Parse(c.Src)
	if err != nil {
		c.Stat = "parse: " + err.Error()
		return c
	}
	before := treeJSON(file)
	var out, errw hxsh.ConcBuffer
	rn, err := interp.New(s.Options(nil, &out, &errw)...)
	if err != nil {
		c.Stat = "new: " + err.Error()
		return c
	}
	oc := hxsh.Run(rn, file)
	if oc.Bad() {
		c.Stat = "run: " + oc.String()
		return c
	}
	if treeJSON(file) != before {
		c.Fails = append(c.Fails, "tree_contents_changed")
	}
	if errw.String() != "" {
		c.Stat = "stderr: " + errw.String()
	}
	c.Go = strings.Split(strings.TrimSuffix(out.String(), "\n"), "\n")
	return c
}

func startArg(o hx.Opts) int {
	if len(o.Args) > 0 {
		if n, err := strconv.Atoi(o.Args[0]); err == nil {
			return n
		}
	}
	return 0
}

func main() {
	o := hx.ParseArgs()
	defer hx.Flush()
	s := hxsh.NewScratch("c29-")
	defer s.Close()
	switch o.Mode {
	case "gen":
		// an optional extra argument is the index to resume from after a crash of this process
		// (a panic in a goroutine of the interpreter cannot be recovered in-process)
		start := startArg(o)
		g := hxsh.NewGen(hx.Rand(o.Seed, 29))
		for i := 0; i < o.N; i++ {
			src := g.Program(2 + g.R.IntN(9))
			if i < start {
				continue
			}
			feats := make([]string, 0, len(g.Feats))
			for f := range g.Feats {
				feats = append(feats, f)
			}
			sort.Strings(feats)
			hx.Emit(map[string]any{"begin": i, "src": hx.Hex(src)})
			hx.Flush()
			hx.Emit(runCase(s, src, "gen", i, feats))
			hx.Flush()
		}
	case "pinned":
		// corpus/c29/regress.txt: each program with the read-only Environ and with the one that offers Set
		start := startArg(o)
		i := 0
		for _, e := range hxsh.LoadRegress("c29") {
			if e.Kind != "prog" || len(e.Progs) != 1 {
				continue
			}
			for v := 0; v < 2; v++ {
				if i >= start {
					hx.Emit(map[string]any{"begin": i, "src": hx.Hex(e.Progs[0])})
					hx.Flush()
					hx.Emit(runCase(s, e.Progs[0], "pinned", v, []string{"pinned:" + e.Name}))
					hx.Flush()
				}
				i++
			}
		}
	case "corpus":
		start := startArg(o)
		progs, err := hxsh.CorpusPrograms(o.In)
		if err != nil {
			hx.Emit(map[string]any{"error": err.Error()})
			return
		}
		for i, src := range progs {
			if i < start {
				continue
			}
			hx.Emit(map[string]any{"begin": i, "src": hx.Hex(src)})
			hx.Flush()
			hx.Emit(runCase(s, src, "corpus", i, nil))
			hx.Flush()
		}
	case "one":
		// replay: -in FILE holding the program text
		panic("use ./check C29 --replay")
	case "alias":
		r := hx.Rand(o.Seed, 2900)
		for i := 0; i < o.N; i++ {
			hx.Emit(runAlias(s, r))
		}
	}
}
