// c02: search harness for property C02 (see hxfmt.Run and checks/c02.py).
//   c02 search -tier quick|thorough -seed N   whole-language search over the fixed enumeration
//   c02 one -in FILE                          replay one case {"src":hex,"lang":..,"opts":..,"simplify":..}
package main

import (
	"verifharness/hx"
	"verifharness/hxfmt"
)

func main() {
	o := hx.ParseArgs()
	defer hx.Flush()
	hxfmt.Main("C02", o)
}
