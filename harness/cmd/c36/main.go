// Command c36: generated directory trees x option sets (flags / equivalent EditorConfig), the shfmt binary
// built from the current tree run in -l, -d, -w, -f and stdin modes, compared with each other and with the
// formatted bytes computed directly through the syntax package. One JSON line per (tree, config, realisation).
package main

import (
	"bytes"
	"encoding/json"
	"fmt"
	"math/rand/v2"
	"os"
	"os/exec"
	"path/filepath"
	"regexp"
	"sort"
	"strconv"
	"strings"

	"mvdan.cc/sh/v3/syntax"
	"verifharness/hx"
)

type config struct {
	Indent  uint
	Bn, Ci, Sr, Fn, Kp, S, Mn bool
	Ln      string // "", bash, posix, mksh, bats, zsh
}

func (c config) flags() []string {
	var f []string
	if c.Indent > 0 {
		f = append(f, "-i", strconv.Itoa(int(c.Indent)))
	}
	for _, p := range []struct {
		b bool
		n string
	}{{c.Bn, "-bn"}, {c.Ci, "-ci"}, {c.Sr, "-sr"}, {c.Fn, "-fn"}, {c.Kp, "-kp"}, {c.S, "-s"}, {c.Mn, "-mn"}} {
		if p.b {
			f = append(f, p.n)
		}
	}
	if c.Ln != "" {
		f = append(f, "-ln", c.Ln)
	}
	return f
}

func (c config) editorconfig() string {
	var b strings.Builder
	b.WriteString("root = true\n\n[*]\n")
	if c.Indent > 0 {
		fmt.Fprintf(&b, "indent_style = space\nindent_size = %d\n", c.Indent)
	} else {
		b.WriteString("indent_style = tab\n")
	}
	kv := func(k string, v bool) {
		if v {
			fmt.Fprintf(&b, "%s = true\n", k)
		}
	}
	kv("binary_next_line", c.Bn)
	kv("switch_case_indent", c.Ci)
	kv("space_redirects", c.Sr)
	kv("function_next_line", c.Fn)
	kv("keep_padding", c.Kp)
	kv("simplify", c.S)
	kv("minify", c.Mn)
	if c.Ln != "" {
		fmt.Fprintf(&b, "shell_variant = %s\n", c.Ln)
	}
	return b.String()
}

// section writes every knob explicitly (true and false), so that a later section overrides an earlier one
func (c config) section(header string) string {
	var b strings.Builder
	fmt.Fprintf(&b, "\n[%s]\n", header)
	if c.Indent > 0 {
		fmt.Fprintf(&b, "indent_style = space\nindent_size = %d\n", c.Indent)
	} else {
		b.WriteString("indent_style = tab\n")
	}
	kv := func(k string, v bool) { fmt.Fprintf(&b, "%s = %v\n", k, v) }
	kv("binary_next_line", c.Bn)
	kv("switch_case_indent", c.Ci)
	kv("space_redirects", c.Sr)
	kv("function_next_line", c.Fn)
	kv("keep_padding", c.Kp)
	kv("simplify", c.S)
	kv("minify", c.Mn)
	if c.Ln != "" {
		fmt.Fprintf(&b, "shell_variant = %s\n", c.Ln)
	}
	return b.String()
}

func langOf(name string) (syntax.LangVariant, bool) {
	switch name {
	case "bash":
		return syntax.LangBash, true
	case "posix", "sh", "dash":
		return syntax.LangPOSIX, true
	case "mksh":
		return syntax.LangMirBSDKorn, true
	case "bats":
		return syntax.LangBats, true
	case "zsh":
		return syntax.LangZsh, true
	}
	return syntax.LangBash, false
}

// independent statement of the detection rules (shfmt.1: extension, then shebang, then bash)
var shebangSpec = regexp.MustCompile(`^#![ \t]*/(usr/)?bin/(env[ \t]+)?(sh|dash|bash|mksh|bats|zsh)(\s|$)`)

func specShebang(src []byte) string {
	m := shebangSpec.FindSubmatch(src)
	if m == nil {
		return ""
	}
	return string(m[3])
}

// specLang: the language the documentation promises for a walked file / a stdin name.
func specLang(c config, name string, src []byte) syntax.LangVariant {
	if c.Ln != "" {
		l, _ := langOf(c.Ln)
		return l
	}
	ext := strings.TrimPrefix(filepath.Ext(name), ".")
	if ext != "sh" {
		if l, ok := langOf(ext); ok {
			return l
		}
	}
	if l, ok := langOf(specShebang(src)); ok {
		return l
	}
	return syntax.LangBash
}

var extSpec = regexp.MustCompile(`\.(sh|bash|mksh|bats|zsh)$`)

// specWalked: is the regular file found when walking a directory?
func specWalked(name string, src []byte) bool {
	base := filepath.Base(name)
	switch {
	case base[0] == '.':
		return false
	case extSpec.MatchString(base):
		return true
	case strings.IndexByte(base, '.') > 0:
		return false
	}
	return len(src) >= len("#!/bin/sh") && specShebang(src) != ""
}

// libFormat: parse + simplify + print through the library, with the options of c.
func libFormat(c config, l syntax.LangVariant, src []byte, name string) (out []byte, perr string) {
	var node *syntax.File
	panicked, msg := hx.Try(func() {
		p := syntax.NewParser(syntax.KeepComments(true), syntax.Variant(l))
		f, err := p.Parse(bytes.NewReader(src), name)
		if err != nil {
			perr = err.Error()
			return
		}
		node = f
		if c.S || c.Mn {
			syntax.Simplify(node)
		}
		pr := syntax.NewPrinter(syntax.Minify(c.Mn), syntax.Indent(c.Indent), syntax.BinaryNextLine(c.Bn),
			syntax.SwitchCaseIndent(c.Ci), syntax.SpaceRedirects(c.Sr), syntax.KeepPadding(c.Kp), syntax.FunctionNextLine(c.Fn))
		var buf bytes.Buffer
		pr.Print(&buf, node)
		out = buf.Bytes()
	})
	if panicked {
		return nil, "PANIC " + msg
	}
	return out, perr
}

// ---------------------------------------------------------------- unified diff applier
type hline struct {
	Tag  byte // ' ', '-', '+'
	Text string
}
type hunk struct {
	OldStart, OldCount, NewStart, NewCount int
	Lines                                  []hline
}

var hunkRe = regexp.MustCompile(`^@@ -(\d+),(\d+) \+(\d+),(\d+) @@\n$`)

func parseDiff(d string) (oldName, newName string, hs []hunk, err error) {
	lines := strings.SplitAfter(d, "\n")
	if len(lines) > 0 && lines[len(lines)-1] == "" {
		lines = lines[:len(lines)-1]
	}
	if len(lines) < 3 || !strings.HasPrefix(lines[0], "diff ") || !strings.HasPrefix(lines[1], "--- ") || !strings.HasPrefix(lines[2], "+++ ") {
		return "", "", nil, fmt.Errorf("bad header")
	}
	oldName = strings.TrimSuffix(lines[1][4:], "\n")
	newName = strings.TrimSuffix(lines[2][4:], "\n")
	var cur *hunk
	for _, ln := range lines[3:] {
		if m := hunkRe.FindStringSubmatch(ln); m != nil {
			hs = append(hs, hunk{})
			cur = &hs[len(hs)-1]
			cur.OldStart, _ = strconv.Atoi(m[1])
			cur.OldCount, _ = strconv.Atoi(m[2])
			cur.NewStart, _ = strconv.Atoi(m[3])
			cur.NewCount, _ = strconv.Atoi(m[4])
			continue
		}
		if cur == nil || ln == "" {
			return "", "", nil, fmt.Errorf("line outside hunk: %q", ln)
		}
		switch ln[0] {
		case ' ', '-', '+':
			cur.Lines = append(cur.Lines, hline{ln[0], ln[1:]})
		case '\\':
			if len(cur.Lines) == 0 {
				return "", "", nil, fmt.Errorf("marker without line")
			}
			last := &cur.Lines[len(cur.Lines)-1]
			last.Text = strings.TrimSuffix(last.Text, "\n")
		default:
			return "", "", nil, fmt.Errorf("bad hunk line %q", ln)
		}
	}
	return oldName, newName, hs, nil
}

func splitLines(s string) []string {
	l := strings.SplitAfter(s, "\n")
	if l[len(l)-1] == "" {
		l = l[:len(l)-1]
	}
	return l
}

// applyHunks: strict application (context and deletions must match, counts must be right).
func applyHunks(src string, hs []hunk) (string, error) {
	a := splitLines(src)
	var out []string
	pos := 0
	for _, h := range hs {
		start := h.OldStart - 1
		if h.OldCount == 0 {
			start = h.OldStart
		}
		if start < pos || start > len(a) {
			return "", fmt.Errorf("hunk start %d out of order (pos %d, len %d)", start, pos, len(a))
		}
		out = append(out, a[pos:start]...)
		pos = start
		oc, nc := 0, 0
		for _, l := range h.Lines {
			switch l.Tag {
			case ' ', '-':
				if pos >= len(a) || a[pos] != l.Text {
					return "", fmt.Errorf("mismatch at old line %d", pos+1)
				}
				if l.Tag == ' ' {
					out = append(out, l.Text)
					nc++
				}
				pos++
				oc++
			case '+':
				out = append(out, l.Text)
				nc++
			}
		}
		if oc != h.OldCount || nc != h.NewCount {
			return "", fmt.Errorf("hunk counts %d,%d differ from header %d,%d", oc, nc, h.OldCount, h.NewCount)
		}
	}
	out = append(out, a[pos:]...)
	return strings.Join(out, ""), nil
}

// ---------------------------------------------------------------- generator
type gfile struct {
	Rel    string
	Src    []byte
	Walked bool
}

var messy = []string{
	"if true;then\necho   a\nfi\n", "foo   &&\n  bar\n", "case $x in\na) b;;\nesac\n", "echo a >f 2>&1\n",
	"f(){\n a\n}\n", "echo $(( $a + 1 ))\n", "[[ \"$a\" == b ]]\n", "echo   a    b # c\n", "a=(1 2  3)\n",
	"while true;do\n  x|y\ndone\n", "echo \"$( ls )\"\n", "cat <<EOF\n  keep $x\nEOF\n", "{ a;b; }\n", "x=1   y=2 cmd\n",
	"for i in a b\ndo\necho $i\ndone\n", "[ -n \"$a\" ]&&echo b\n", "function g { a; }\n", "echo ${a:-b}  'c  d'\n",
}
var clean = []string{
	"echo a\n", "if true; then\n\techo a\nfi\n", "foo && bar\n", "x=1\n", "# comment\necho b\n", "a | b\n", "exit 0\n",
}
var broken = []string{"if true; then\n", "echo (\n", "foo ) bar\n", "\"unterminated\n", "fi\n", "case x in\n"}
var shebangs = []string{"#!/bin/sh\n", "#!/bin/bash\n", "#!/usr/bin/env bash\n", "#!/usr/bin/env   mksh\n", "#! /bin/dash\n",
	"#!/bin/zsh\n", "#!/usr/bin/env bats\n", "#!/usr/bin/python\n", "#!/bin/shx\n", ""}
var exts = []string{".sh", ".bash", ".mksh", ".zsh", ".bats", "", ".txt", ".py", ".sh.bak"}
var dirs = []string{"", "a", "a/b", "c", "a/b/d", ".hidden", ".git"}

func genContent(r *rand.Rand, kind int) []byte {
	var b strings.Builder
	n := 1 + r.IntN(4)
	for i := 0; i < n; i++ {
		switch kind {
		case 0:
			b.WriteString(hx.Pick(r, clean))
		case 1:
			if r.IntN(3) == 0 {
				b.WriteString(hx.Pick(r, clean))
			} else {
				b.WriteString(hx.Pick(r, messy))
			}
		default:
			b.WriteString(hx.Pick(r, messy))
		}
	}
	if kind == 2 {
		b.WriteString(hx.Pick(r, broken))
	}
	s := b.String()
	if kind == 1 && r.IntN(6) == 0 {
		s = strings.TrimSuffix(s, "\n") // no newline at end of file
	}
	return []byte(s)
}

func genTree(r *rand.Rand) []gfile {
	n := 3 + r.IntN(6)
	seen := map[string]bool{}
	var fs []gfile
	for len(fs) < n {
		d := hx.Pick(r, dirs)
		ext := hx.Pick(r, exts)
		if r.IntN(2) == 0 {
			ext = ".sh"
		}
		base := fmt.Sprintf("f%d%s", r.IntN(30), ext)
		if r.IntN(15) == 0 {
			base = "." + base
		}
		rel := filepath.Join(d, base)
		if seen[rel] {
			continue
		}
		seen[rel] = true
		kind := r.IntN(10)
		switch {
		case kind < 3:
			kind = 0
		case kind < 8:
			kind = 1
		default:
			kind = 2
		}
		src := genContent(r, kind)
		if ext == "" || r.IntN(3) == 0 {
			src = append([]byte(hx.Pick(r, shebangs)), src...)
		}
		if ext != ".sh" && ext != ".bash" && ext != ".mksh" && ext != ".zsh" && ext != ".bats" && ext != "" && r.IntN(2) == 0 {
			src = []byte("not a shell file (\n")
		}
		walked := specWalked(rel, src)
		for _, p := range strings.Split(filepath.Dir(rel), string(filepath.Separator)) {
			if p == ".git" {
				walked = false // VCS directories are skipped; other hidden directories are walked
			}
		}
		fs = append(fs, gfile{rel, src, walked})
	}
	sort.Slice(fs, func(i, j int) bool { return fs[i].Rel < fs[j].Rel })
	return fs
}

func genConfig(r *rand.Rand) config {
	var c config
	if r.IntN(2) == 0 {
		c.Indent = uint(hx.Pick(r, []int{2, 4, 8, 3}))
	}
	p := func() bool { return r.IntN(4) == 0 }
	c.Bn, c.Ci, c.Sr, c.Fn, c.Kp, c.S = p(), p(), p(), p(), p(), p()
	c.Mn = r.IntN(8) == 0
	if r.IntN(3) == 0 {
		c.Ln = hx.Pick(r, []string{"bash", "posix", "mksh", "bats", "zsh"})
	}
	return c
}

// ---------------------------------------------------------------- running shfmt
var shfmtBin string

func runShfmt(dir string, stdin []byte, args ...string) (rc int, out, errb []byte) {
	cmd := exec.Command(shfmtBin, args...)
	cmd.Dir = dir
	cmd.Env = []string{"PATH=/usr/bin:/bin", "HOME=/nonexistent", "NO_COLOR=1", "TERM=dumb"}
	if stdin != nil {
		cmd.Stdin = bytes.NewReader(stdin)
	}
	var o, e bytes.Buffer
	cmd.Stdout, cmd.Stderr = &o, &e
	err := cmd.Run()
	rc = 0
	if ee, ok := err.(*exec.ExitError); ok {
		rc = ee.ExitCode()
	} else if err != nil {
		rc = -1
	}
	return rc, o.Bytes(), e.Bytes()
}

func writeTree(root string, fs []gfile, ec string) {
	os.RemoveAll(root)
	for _, f := range fs {
		p := filepath.Join(root, f.Rel)
		os.MkdirAll(filepath.Dir(p), 0o755)
		if err := os.WriteFile(p, f.Src, 0o644); err != nil {
			panic(err)
		}
	}
	os.MkdirAll(root, 0o755)
	// always a root = true file, so that nothing above the scratch directory is consulted
	if ec == "" {
		ec = "root = true\n"
	}
	os.WriteFile(filepath.Join(root, ".editorconfig"), []byte(ec), 0o644)
}

type fileRow struct {
	Rel    string `json:"rel"`
	Src    string `json:"src"`            // hex
	Walked bool   `json:"walked"`
	Lang   string `json:"lang"`
	Exp    string `json:"exp"`            // hex of formatted bytes, or "" with Err set
	Err    bool   `json:"err"`
	Idem   bool   `json:"idem"`           // formatting the formatted bytes again (same language) gives the same bytes
	LangStable bool `json:"lang_stable"`  // the formatted bytes are detected as the same language as the source
	Cut32  bool   `json:"cut32"`          // the shebang seen in the first 32 bytes differs from the one of the whole source
	Diff   [][]any `json:"diff,omitempty"` // hunks of shfmt -d for this file: [start0, [[tag, hexline]...]]
}

type row struct {
	Tree    int       `json:"tree"`
	Via     string    `json:"via"` // flags | editorconfig | args
	Flags   []string  `json:"flags"`
	Ln      string    `json:"ln"` // language forced by -ln or by shell_variant
	PerFileLn bool    `json:"per_file_ln"` // some file name has its own shell_variant section
	Files   []fileRow `json:"files"`
	LOut    []string  `json:"l_out"`
	LRc     int       `json:"l_rc"`
	DRc     int       `json:"d_rc"`
	DFiles  []string  `json:"d_files"`
	WRc     int       `json:"w_rc"`
	L2Out   []string  `json:"l2_out"`
	L2Rc    int       `json:"l2_rc"`
	Combos  []combo   `json:"combos"`
	Fails   []string  `json:"fails"`
	Class   string    `json:"class,omitempty"`
	Detail  string    `json:"detail,omitempty"`
}

// combo: one run with several mode flags on a fresh copy of the tree
type combo struct {
	Flags   []string `json:"flags"`
	Rc      int      `json:"rc"`
	Listed  []string `json:"listed"`
	Diffed  []string `json:"diffed"`
	Written []string `json:"written"` // files whose bytes changed
}

func splitDiffs(out string) []string {
	var res []string
	lines := strings.SplitAfter(out, "\n")
	cur := ""
	for _, l := range lines {
		if strings.HasPrefix(l, "diff ") && cur != "" {
			res = append(res, cur)
			cur = ""
		}
		cur += l
	}
	if cur != "" {
		res = append(res, cur)
	}
	return res
}

func nonEmptyLines(b []byte) []string {
	var res []string
	for _, l := range strings.Split(string(b), "\n") {
		if l != "" {
			res = append(res, l)
		}
	}
	sort.Strings(res)
	return res
}

func eqStrs(a, b []string) bool {
	if len(a) != len(b) {
		return false
	}
	for i := range a {
		if a[i] != b[i] {
			return false
		}
	}
	return true
}

// checkOne runs every mode on one tree with one realisation of a config.
// over: per-basename option sets (via "sections": an EditorConfig section per file name after the [*] section)
func checkOne(scratch string, ti int, fs []gfile, c config, via string, over map[string]config) row {
	root := filepath.Join(scratch, "t")
	var flags []string
	ec := ""
	switch via {
	case "flags", "args":
		flags = c.flags()
	case "editorconfig":
		ec = c.editorconfig()
	case "sections":
		ec = c.editorconfig()
		var names []string
		for n := range over {
			names = append(names, n)
		}
		sort.Strings(names)
		for _, n := range names {
			ec += over[n].section(n)
		}
	}
	cfgOf := func(rel string) config {
		if o, ok := over[filepath.Base(rel)]; ok && via == "sections" {
			return o
		}
		return c
	}
	writeTree(root, fs, ec)
	rw := row{Tree: ti, Via: via, Flags: flags, Ln: c.Ln}
	for _, o := range over {
		if o.Ln != c.Ln {
			rw.PerFileLn = true
		}
	}
	fail := func(clause, detail string) {
		rw.Fails = append(rw.Fails, clause)
		if rw.Detail == "" {
			rw.Detail = clause + ": " + detail
		}
	}
	exp := map[string][]byte{}
	isErr := map[string]bool{}
	var wantL, errFiles, nonIdem, langFlip []string
	var targets []gfile
	for _, f := range fs {
		sel := f.Walked
		if via == "args" {
			// explicit arguments are formatted whatever their name; pass only regular shell-looking files
			sel = f.Walked
		}
		if !sel {
			rw.Files = append(rw.Files, fileRow{Rel: f.Rel, Src: hx.Hex(string(f.Src)), Walked: false})
			continue
		}
		targets = append(targets, f)
		fc := cfgOf(f.Rel)
		l := specLang(fc, f.Rel, f.Src)
		out, perr := libFormat(fc, l, f.Src, f.Rel)
		fr := fileRow{Rel: f.Rel, Src: hx.Hex(string(f.Src)), Walked: true, Lang: l.String(), Idem: true, LangStable: true}
		fr.Cut32 = specShebang(f.Src[:min(32, len(f.Src))]) != specShebang(f.Src)
		if perr != "" {
			fr.Err = true
			isErr[f.Rel] = true
			errFiles = append(errFiles, f.Rel)
		} else {
			fr.Exp = hx.Hex(string(out))
			exp[f.Rel] = out
			if !bytes.Equal(out, f.Src) {
				wantL = append(wantL, f.Rel)
			}
			out2, perr2 := libFormat(fc, l, out, f.Rel)
			if perr2 != "" || !bytes.Equal(out2, out) {
				fr.Idem = false
				nonIdem = append(nonIdem, f.Rel)
			} else if specLang(fc, f.Rel, out) != l {
				fr.LangStable = false
				langFlip = append(langFlip, f.Rel)
			}
		}
		rw.Files = append(rw.Files, fr)
	}
	sort.Strings(wantL)
	args := func(mode ...string) []string {
		a := append(append([]string{}, flags...), mode...)
		if via == "args" {
			for _, f := range targets {
				a = append(a, f.Rel)
			}
			if len(targets) == 0 {
				a = append(a, ".")
			}
		} else {
			a = append(a, ".")
		}
		return a
	}
	// ---- -f: the walked set
	if via != "args" {
		_, fout, _ := runShfmt(root, nil, args("-f")...)
		var wantF []string
		for _, f := range targets {
			wantF = append(wantF, f.Rel)
		}
		sort.Strings(wantF)
		if got := nonEmptyLines(fout); !eqStrs(got, wantF) {
			fail("find_lists_shell_files", fmt.Sprintf("got %q want %q", got, wantF))
		}
	}
	// ---- -l
	rc, lout, lerr := runShfmt(root, nil, args("-l")...)
	rw.LRc, rw.LOut = rc, nonEmptyLines(lout)
	if !eqStrs(rw.LOut, wantL) {
		fail("list_iff_differs", fmt.Sprintf("got %q want %q stderr %q", rw.LOut, wantL, lerr))
	}
	wantRc := 0
	if len(wantL) > 0 || len(errFiles) > 0 {
		wantRc = 1
	}
	if rc != wantRc {
		fail("exit_iff_listed", fmt.Sprintf("rc %d want %d listed %d errors %d", rc, wantRc, len(wantL), len(errFiles)))
	}
	// every parse error is reported on stderr with the file name
	for _, e := range errFiles {
		if !bytes.Contains(lerr, []byte(e+":")) {
			fail("error_reported", e)
		}
	}
	// ---- -l=0
	rc0, l0, _ := runShfmt(root, nil, args("-l=0")...)
	if rc0 != wantRc {
		fail("list0_exit_iff_listed", fmt.Sprintf("rc %d want %d listed %d errors %d", rc0, wantRc, len(wantL), len(errFiles)))
	}
	if ti%2 == 0 {
		rcl, ll0, _ := runShfmt(root, nil, args("--list=0")...)
		if rcl != wantRc || !bytes.Equal(ll0, l0) {
			fail("list0_long_flag", fmt.Sprintf("rc %d want %d", rcl, wantRc))
		}
	}
	var got0 []string
	for _, p := range strings.Split(string(l0), "\x00") {
		if p != "" {
			got0 = append(got0, p)
		}
	}
	sort.Strings(got0)
	if !eqStrs(got0, wantL) {
		fail("list0_iff_differs", fmt.Sprintf("got %q want %q", got0, wantL))
	}
	// ---- -d
	rc, dout, _ := runShfmt(root, nil, args("-d")...)
	rw.DRc = rc
	if rc != wantRc {
		fail("diff_exit", fmt.Sprintf("rc %d want %d", rc, wantRc))
	}
	var dfiles []string
	for _, d := range splitDiffs(string(dout)) {
		oldN, newN, hs, err := parseDiff(d)
		if err != nil {
			fail("diff_wellformed", err.Error())
			continue
		}
		if oldN != newN+".orig" {
			fail("diff_names", oldN+" "+newN)
		}
		dfiles = append(dfiles, newN)
		var src []byte
		found := false
		for i, f := range rw.Files {
			if f.Rel == newN {
				src = []byte(hx.UnHex(f.Src))
				found = true
				for _, h := range hs {
					start := h.OldStart - 1
					if h.OldCount == 0 {
						start = h.OldStart
					}
					var ls []any
					for _, l := range h.Lines {
						ls = append(ls, []any{string(l.Tag), hx.Hex(l.Text)})
					}
					rw.Files[i].Diff = append(rw.Files[i].Diff, []any{start, ls})
				}
			}
		}
		if !found {
			fail("diff_for_unknown_file", newN)
			continue
		}
		res, err := applyHunks(string(src), hs)
		if err != nil {
			fail("diff_applies", newN+": "+err.Error())
		} else if e, ok := exp[newN]; !ok || res != string(e) {
			fail("diff_yields_formatted", newN)
		}
	}
	sort.Strings(dfiles)
	rw.DFiles = dfiles
	if !eqStrs(dfiles, wantL) {
		fail("diff_iff_listed", fmt.Sprintf("got %q want %q", dfiles, wantL))
	}
	// ---- -l -d together: both outputs, same set
	_, ldout, _ := runShfmt(root, nil, args("-l", "-d")...)
	nl := 0
	for _, l := range strings.Split(string(ldout), "\n") {
		for _, w := range wantL {
			if l == w {
				nl++
			}
		}
	}
	if nl != len(wantL) || strings.Count(string(ldout), "\ndiff ")+btoi(strings.HasPrefix(string(ldout), "diff ")) != len(wantL) {
		fail("list_and_diff_together", fmt.Sprintf("%d names for %d files", nl, len(wantL)))
	}
	// ---- stdin with --filename: same bytes as the file would get
	for i, f := range targets {
		if i >= 4 && ti < 1000 {
			break
		}
		a := append(append([]string{}, flags...), "--filename", filepath.Join(root, f.Rel))
		rc, sout, _ := runShfmt(root, f.Src, a...)
		if isErr[f.Rel] {
			if rc == 0 {
				fail("stdin_same", f.Rel+": stdin accepted what the file mode rejects")
			}
			continue
		}
		if rc != 0 || !bytes.Equal(sout, exp[f.Rel]) {
			fail("stdin_same", fmt.Sprintf("%s rc=%d", f.Rel, rc))
		}
	}
	// ---- plain (no mode flag) on each file: prints the formatted bytes
	for i, f := range targets {
		if i >= 2 {
			break
		}
		a := append(append([]string{}, flags...), f.Rel)
		rc, sout, _ := runShfmt(root, nil, a...)
		if isErr[f.Rel] {
			if rc == 0 {
				fail("plain_same", f.Rel)
			}
		} else if rc != 0 || !bytes.Equal(sout, exp[f.Rel]) {
			fail("plain_same", fmt.Sprintf("%s rc=%d", f.Rel, rc))
		}
	}
	// ---- combined mode flags, each on a fresh copy of the tree: what is printed, the exit status, and the
	// state afterwards (every differing file holds its formatted bytes when -w is among the flags; -l then empty)
	for _, cf := range [][]string{{"-w", "-d"}, {"-l", "-w"}, {"-l", "-w", "-d"}} {
		name := strings.Join(cf, "")
		hasW, hasD, hasL := false, false, false
		for _, f := range cf {
			hasW = hasW || f == "-w"
			hasD = hasD || f == "-d"
			hasL = hasL || f == "-l"
		}
		writeTree(root, fs, ec)
		crc, cout, _ := runShfmt(root, nil, args(cf...)...)
		co := combo{Flags: cf, Rc: crc}
		var rest strings.Builder
		for _, l := range strings.SplitAfter(string(cout), "\n") {
			if l == "" {
				continue
			}
			if strings.IndexByte(" -+\\@", l[0]) < 0 && !strings.HasPrefix(l, "diff ") {
				co.Listed = append(co.Listed, strings.TrimSuffix(l, "\n"))
			} else {
				rest.WriteString(l)
			}
		}
		sort.Strings(co.Listed)
		for _, d := range splitDiffs(rest.String()) {
			_, newN, hs, err := parseDiff(d)
			if err != nil {
				fail("combo"+name+"_diff_wellformed", err.Error())
				continue
			}
			co.Diffed = append(co.Diffed, newN)
			for _, f := range fs {
				if f.Rel == newN {
					if res, err := applyHunks(string(f.Src), hs); err != nil || res != string(exp[newN]) {
						fail("combo"+name+"_diff_yields_formatted", newN)
					}
				}
			}
		}
		sort.Strings(co.Diffed)
		var wantListed, wantDiffed []string
		if hasL {
			wantListed = wantL
		}
		if hasD {
			wantDiffed = wantL
		}
		if !eqStrs(co.Listed, wantListed) {
			fail("combo"+name+"_listed", fmt.Sprintf("got %q want %q", co.Listed, wantListed))
		}
		if !eqStrs(co.Diffed, wantDiffed) {
			fail("combo"+name+"_diffed", fmt.Sprintf("got %q want %q", co.Diffed, wantDiffed))
		}
		wantC := 0
		if len(errFiles) > 0 || (len(wantL) > 0 && (hasD || !hasW)) {
			wantC = 1
		}
		if crc != wantC {
			fail("combo"+name+"_exit", fmt.Sprintf("rc %d want %d", crc, wantC))
		}
		for _, f := range fs {
			got, err := os.ReadFile(filepath.Join(root, f.Rel))
			want := f.Src
			if e, ok := exp[f.Rel]; ok && hasW {
				want = e
			}
			if err != nil || !bytes.Equal(got, want) {
				fail("combo"+name+"_after_state", f.Rel)
			}
			if err == nil && !bytes.Equal(got, f.Src) {
				co.Written = append(co.Written, f.Rel)
			}
		}
		sort.Strings(co.Written)
		if hasW && len(nonIdem) == 0 && len(langFlip) == 0 {
			lrc, lo, _ := runShfmt(root, nil, args("-l")...)
			if got := nonEmptyLines(lo); len(got) > 0 || lrc != wantW0(errFiles) {
				fail("combo"+name+"_then_list_empty", fmt.Sprintf("%q rc %d", got, lrc))
			}
		}
		rw.Combos = append(rw.Combos, co)
	}
	writeTree(root, fs, ec)
	// ---- -w, then -l
	rc, _, _ = runShfmt(root, nil, args("-w")...)
	rw.WRc = rc
	wantW := 0
	if len(errFiles) > 0 {
		wantW = 1
	}
	if rc != wantW {
		fail("write_exit", fmt.Sprintf("rc %d want %d", rc, wantW))
	}
	for _, f := range fs {
		got, err := os.ReadFile(filepath.Join(root, f.Rel))
		want := f.Src
		if e, ok := exp[f.Rel]; ok {
			want = e
		}
		if err != nil || !bytes.Equal(got, want) {
			fail("write_writes_formatted", f.Rel)
		}
	}
	rc, l2, _ := runShfmt(root, nil, args("-l")...)
	rw.L2Rc, rw.L2Out = rc, nonEmptyLines(l2)
	if len(rw.L2Out) > 0 {
		// two ways only (theorem C36_write_then_list_empty): formatting is not idempotent on that input
		// (property C02), or the formatted bytes are detected as another language than the source
		subset := func(set []string) bool {
			for _, p := range rw.L2Out {
				ok := false
				for _, q := range set {
					if p == q {
						ok = true
					}
				}
				if !ok {
					return false
				}
			}
			return true
		}
		fail("write_then_list_empty", fmt.Sprintf("%q", rw.L2Out))
		if len(rw.Fails) == 1 {
			if subset(nonIdem) {
				rw.Class = "c02_nonidempotent_input"
			} else if subset(langFlip) {
				rw.Class = "language_redetected_after_format"
			}
		}
	}
	if rc != wantW && len(rw.L2Out) == 0 && len(langFlip) == 0 {
		fail("write_then_list_exit", fmt.Sprintf("rc %d want %d", rc, wantW))
	}
	return rw
}

func wantW0(errFiles []string) int {
	if len(errFiles) > 0 {
		return 1
	}
	return 0
}

type jcfg struct {
	Indent                     uint
	Bn, Ci, Sr, Fn, Kp, S, Mn bool
	Ln                         string
}

func (j jcfg) config() config {
	return config{Indent: j.Indent, Bn: j.Bn, Ci: j.Ci, Sr: j.Sr, Fn: j.Fn, Kp: j.Kp, S: j.S, Mn: j.Mn, Ln: j.Ln}
}

func btoi(b bool) int {
	if b {
		return 1
	}
	return 0
}

func main() {
	o := hx.ParseArgs()
	if len(o.Args) < 2 {
		fmt.Fprintln(os.Stderr, "usage: c36 gen|pinned -seed N -n N <shfmt binary> <scratch dir>")
		os.Exit(2)
	}
	shfmtBin = o.Args[0]
	scratch := o.Args[1]
	os.MkdirAll(scratch, 0o755)
	defer os.RemoveAll(scratch)
	switch o.Mode {
	case "gen":
		r := hx.Rand(o.Seed, 36)
		for i := 0; i < o.N; i++ {
			fs := genTree(r)
			c := genConfig(r)
			for _, via := range []string{"flags", "editorconfig", "args"} {
				if via == "args" && i%3 != 0 {
					continue
				}
				hx.Emit(checkOne(scratch, i, fs, c, via, nil))
			}
			// per-file EditorConfig sections: every file name gets its own option set (the tree's set with some
			// knobs flipped); one invocation over the directory must format each file with ITS options, exactly
			// as formatting it alone / through stdin --filename does
			base := c
			base.Ln = ""
			over := map[string]config{}
			for _, f := range fs {
				o := base
				flip := func(b *bool) {
					if r.IntN(3) == 0 {
						*b = !*b
					}
				}
				flip(&o.Bn)
				flip(&o.Ci)
				flip(&o.Sr)
				flip(&o.Fn)
				flip(&o.Kp)
				flip(&o.S)
				if r.IntN(6) == 0 {
					o.Mn = !o.Mn
				}
				if r.IntN(3) == 0 {
					o.Indent = uint(hx.Pick(r, []int{0, 2, 4}))
				}
				over[filepath.Base(f.Rel)] = o
			}
			hx.Emit(checkOne(scratch, i, fs, base, "sections", over))
		}
	case "pinned":
		// witnesses of known findings and edge cases, always re-run
		for i, p := range pinned {
			via := "flags"
			if p.over != nil {
				via = "sections"
			}
			rw := checkOne(scratch, 1000+i, p.fs, p.c, via, p.over)
			if p.class != "" && len(rw.Fails) > 0 {
				// attributed to the listed finding only if the class predicate holds on the witness file and
				// the failure signature (set of failing clauses) is the recorded one
				got := append([]string{}, rw.Fails...)
				sort.Strings(got)
				pred := false
				for _, f := range rw.Files {
					switch p.class {
					case "shebang_cut_at_32_bytes":
						pred = pred || f.Cut32
					case "language_redetected_after_format":
						pred = pred || !f.LangStable
					case "c02_nonidempotent_input":
						pred = pred || !f.Idem
					}
				}
				if pred && eqStrs(got, p.sig) {
					rw.Class = p.class
				} else {
					rw.Class = ""
				}
			}
			hx.Emit(rw)
		}
		// the regression corpus (corpus/c36/regress.json): ordinary trees, same oracles, every seed and tier
		if o.In != "" {
			data, err := os.ReadFile(o.In)
			if err != nil {
				fmt.Fprintln(os.Stderr, err)
				os.Exit(2)
			}
			var reg struct {
				Trees []struct {
					Name   string
					Config jcfg
					Over   map[string]jcfg
					Files  []struct{ Rel, Src string }
				}
			}
			if err := json.Unmarshal(data, &reg); err != nil {
				fmt.Fprintln(os.Stderr, err)
				os.Exit(2)
			}
			for i, t := range reg.Trees {
				var fs []gfile
				for _, f := range t.Files {
					fs = append(fs, gfile{f.Rel, []byte(f.Src), specWalked(f.Rel, []byte(f.Src))})
				}
				sort.Slice(fs, func(a, b int) bool { return fs[a].Rel < fs[b].Rel })
				if t.Over != nil {
					over := map[string]config{}
					for n, c := range t.Over {
						over[n] = c.config()
					}
					hx.Emit(checkOne(scratch, 2000+i, fs, t.Config.config(), "sections", over))
					continue
				}
				hx.Emit(checkOne(scratch, 2000+i, fs, t.Config.config(), "flags", nil))
				if t.Config != (jcfg{}) {
					hx.Emit(checkOne(scratch, 2000+i, fs, t.Config.config(), "editorconfig", nil))
				}
			}
		}
	}
	hx.Flush()
}

var leakBody = "if true; then\n\techo $(($a + 1))   x\nfi\n[[ \"$a\" == b ]] &&\n\tfoo >f\ncase $x in\na) b ;;\nesac\nf() {\n\tg\n}\n"
var leakFiles = []gfile{{"a_first.sh", []byte(leakBody), true}, {"b_second.sh", []byte(leakBody), true}, {"sub/c_third.sh", []byte(leakBody), true}}

var pinned = []struct {
	fs    []gfile
	c     config
	class string
	sig   []string
	over  map[string]config
}{
	// C02 finding: the backquoted here-document is not formatted idempotently
	{[]gfile{{"h.sh", []byte("`foo <<'EOF'\nbar\nEOF`\n"), true}, {"ok.sh", []byte("echo   a\n"), true}}, config{},
		"c02_nonidempotent_input", []string{"write_then_list_empty"}, nil},
	// file mode looks for the shebang in the first 32 bytes only, stdin mode in the whole source
	{[]gfile{{"x.sh", []byte("#!" + strings.Repeat(" ", 23) + "/bin/shared-thing\na=(1 2)\n"), true}}, config{},
		"shebang_cut_at_32_bytes", []string{"combo-l-w-d_exit", "combo-l-w-d_then_list_empty", "combo-l-w_exit", "combo-l-w_then_list_empty", "combo-w-d_exit", "combo-w-d_then_list_empty", "diff_exit", "exit_iff_listed", "list0_exit_iff_listed", "plain_same", "write_exit", "write_then_list_exit"}, nil},
	// the formatted bytes start with a shebang that the source (leading blanks) did not have: posix instead of bash
	{[]gfile{{"y.sh", []byte("  #!/bin/sh\n[[ a<b ]]\n"), true}}, config{},
		"language_redetected_after_format", []string{"write_then_list_empty"}, nil},
	// edge cases that must hold
	{[]gfile{{"e.sh", []byte(""), true}, {"nl.sh", []byte("echo a"), true}, {"crlf.sh", []byte("echo a\r\n"), true}}, config{}, "", nil, nil},
	// per-file sections, one knob at a time: the FIRST file walked has the knob, the SECOND (sensitive to it) has not,
	// and the other way round: options must not leak from one file to the next within an invocation
	{leakFiles, config{}, "", nil, map[string]config{"a_first.sh": {S: true}}},
	{leakFiles, config{}, "", nil, map[string]config{"a_first.sh": {Mn: true}}},
	{leakFiles, config{}, "", nil, map[string]config{"a_first.sh": {Indent: 4}}},
	{leakFiles, config{}, "", nil, map[string]config{"a_first.sh": {Bn: true, Ci: true, Sr: true, Fn: true, Kp: true}}},
	{leakFiles, config{}, "", nil, map[string]config{"a_first.sh": {Ln: "posix"}}},
	{leakFiles, config{S: true, Indent: 2, Bn: true, Ci: true, Sr: true, Fn: true}, "", nil, map[string]config{"a_first.sh": {}}},
	{leakFiles, config{}, "", nil, map[string]config{"b_second.sh": {S: true, Indent: 2, Ci: true}}},
	{[]gfile{{"only_comment.sh", []byte("# x\n"), true}, {"sub/.hidden.sh", []byte("echo   a\n"), false}, {"sub/.git/z.sh", []byte("echo  a\n"), false}}, config{Indent: 2}, "", nil, nil},
}
