// c24: printf / echo -e.  Per generated case it emits
//   - the observation of expand.Format (bytes, consumed, error) for the code leg,
//   - the observation of the interpreter's printf / echo builtins (stdout bytes, status),
//   - the observation of real bash 5.2 on the same command (stdout bytes, status),
//   - the direct verdict interp-vs-bash with the narrow known-finding classes the input falls in.
package main

import (
	"bytes"
	"context"
	"encoding/json"
	"errors"
	"fmt"
	"math/rand/v2"
	"os"
	"os/exec"
	"path/filepath"
	"regexp"
	"strconv"
	"strings"
	"time"

	"mvdan.cc/sh/v3/expand"
	"mvdan.cc/sh/v3/interp"
	"mvdan.cc/sh/v3/syntax"
	"verifharness/hx"
)

type kase struct {
	Kind   string   // "printf" | "echo"
	Fmt    string   // printf only
	Args   []string // printf: arguments after the format; echo: all words after "echo"
	Stream string
}

type obs struct {
	I      int      `json:"i"`
	Kind   string   `json:"kind"`
	Stream string   `json:"stream"`
	Fmt    string   `json:"fmt"`  // hex
	Args   []string `json:"args"` // hex
	// expand.Format(nil, fmt, args) (printf kind only)
	FOut  string `json:"fout"`
	FCons int    `json:"fcons"`
	FErr  string `json:"ferr"` // "" | "P" | "missing" | "invalid:<hex byte>" | "other:<text>"
	// expand.Format(nil, fmt, nil): escapes only
	NOut string `json:"nout"`
	// interpreter builtin
	IOut string `json:"iout"`
	ISt  int    `json:"ist"` // -1 panic, -2 timeout, -3 run error
	// bash
	BOut string `json:"bout"`
	BSt  int    `json:"bst"`
	// verdict
	Classes []string `json:"classes"` // narrow known classes the INPUT falls in
	OOD     []string `json:"ood"`     // reasons the input is outside the property's domain
	Fails   []string `json:"fails"`
	Class   string   `json:"class"`
}

// ---------------------------------------------------------------- running the code under test

func formatObs(o *obs, k kase) {
	var s string
	var n int
	var err error
	if p, _ := hx.Try(func() { s, n, err = expand.Format(nil, k.Fmt, k.Args) }); p {
		o.FErr = "P"
	} else if err != nil {
		m := err.Error()
		switch {
		case m == "missing format char":
			o.FErr = "missing"
		case strings.HasPrefix(m, "invalid format char: "):
			// %c of the byte: a rune < 0x80 prints as itself, otherwise as its UTF-8 encoding
			r := []rune(strings.TrimPrefix(m, "invalid format char: "))
			if len(r) == 1 && r[0] < 256 {
				o.FErr = fmt.Sprintf("invalid:%02x", r[0])
			} else {
				o.FErr = "other:" + m
			}
		default:
			o.FErr = "other:" + m
		}
		o.FOut, o.FCons = hx.Hex(s), n
	} else {
		o.FOut, o.FCons = hx.Hex(s), n
	}
	if p, _ := hx.Try(func() { s, _, _ = expand.Format(nil, k.Fmt, nil) }); p {
		o.NOut = "P"
	} else {
		o.NOut = hx.Hex(s)
	}
}

func sq(s string) *syntax.Word {
	return &syntax.Word{Parts: []syntax.WordPart{&syntax.SglQuoted{Value: s}}}
}

func lit(s string) *syntax.Word {
	return &syntax.Word{Parts: []syntax.WordPart{&syntax.Lit{Value: s}}}
}

func words(k kase) []string {
	if k.Kind == "printf" {
		return append([]string{"printf", k.Fmt}, k.Args...)
	}
	return append([]string{"echo"}, k.Args...)
}

func interpObs(o *obs, k kase) {
	w := words(k)
	call := &syntax.CallExpr{Args: []*syntax.Word{lit(w[0])}}
	for _, a := range w[1:] {
		call.Args = append(call.Args, sq(a))
	}
	file := &syntax.File{Stmts: []*syntax.Stmt{{Cmd: call}}}
	var out, errb bytes.Buffer
	noexec := func(next interp.ExecHandlerFunc) interp.ExecHandlerFunc {
		return func(ctx context.Context, args []string) error { return interp.ExitStatus(127) }
	}
	r, err := interp.New(interp.StdIO(nil, &out, &errb), interp.Env(expand.ListEnviron("LC_ALL=C.UTF-8")),
		interp.ExecHandlers(noexec))
	if err != nil {
		o.ISt = -3
		return
	}
	done := make(chan int, 1)
	ctx, cancel := context.WithTimeout(context.Background(), 5*time.Second)
	defer cancel()
	go func() {
		st := 0
		p, _ := hx.Try(func() {
			err := r.Run(ctx, file)
			var es interp.ExitStatus
			if errors.As(err, &es) {
				st = int(es)
			} else if err != nil {
				st = -3
			}
		})
		if p {
			st = -1
		}
		done <- st
	}()
	select {
	case st := <-done:
		o.ISt = st
	case <-time.After(8 * time.Second):
		o.ISt = -2
	}
	o.IOut = hx.Hex(out.String())
}

// ---------------------------------------------------------------- bash

func shq(s string) string { return "'" + strings.ReplaceAll(s, "'", `'\''`) + "'" }

func runBash(cases []kase, res []obs) error {
	dir, err := os.MkdirTemp("", "c24bash")
	if err != nil {
		return err
	}
	defer os.RemoveAll(dir)
	const chunk = 1000
	for lo := 0; lo < len(cases); lo += chunk {
		hi := min(lo+chunk, len(cases))
		var sb strings.Builder
		sb.WriteString("cd \"$D\" || exit 9\n")
		for i := lo; i < hi; i++ {
			w := words(cases[i])
			sb.WriteString(w[0])
			for _, a := range w[1:] {
				sb.WriteByte(' ')
				sb.WriteString(shq(a))
			}
			fmt.Fprintf(&sb, " >o%d 2>/dev/null; echo \"%d $?\"\n", i, i)
		}
		script := filepath.Join(dir, "s.sh")
		if err := os.WriteFile(script, []byte(sb.String()), 0o600); err != nil {
			return err
		}
		cmd := exec.Command("/usr/bin/timeout", "120", "/usr/bin/bash", "--norc", "--noprofile", script)
		cmd.Env = []string{"PATH=/usr/bin:/bin", "LC_ALL=C.UTF-8", "D=" + dir}
		cmd.Dir = dir
		outb, err := cmd.Output()
		if err != nil {
			return fmt.Errorf("bash run failed: %v", err)
		}
		seen := 0
		for _, line := range strings.Split(strings.TrimSpace(string(outb)), "\n") {
			var i, st int
			if _, err := fmt.Sscanf(line, "%d %d", &i, &st); err != nil || i < lo || i >= hi {
				return fmt.Errorf("bad status line %q", line)
			}
			b, err := os.ReadFile(filepath.Join(dir, fmt.Sprintf("o%d", i)))
			if err != nil {
				return err
			}
			res[i].BOut, res[i].BSt = hx.Hex(string(b)), st
			os.Remove(filepath.Join(dir, fmt.Sprintf("o%d", i)))
			seen++
		}
		if seen != hi-lo {
			return fmt.Errorf("bash reported %d of %d cases", seen, hi-lo)
		}
	}
	return nil
}

// ---------------------------------------------------------------- classes (narrow, on the input)

// directive as bash's printf reads it: % flags width [.prec] modifiers conv
type directive struct {
	flags, width string
	prec         bool
	star         bool
	mods         string
	conv         byte // 0 = format ended inside the directive
}

// one escape as it appears after a backslash: the introducing char and the digits that follow
type escape struct {
	c      byte // 0 = backslash at the very end
	digits string
}

func isOct(c byte) bool { return c >= '0' && c <= '7' }
func isHex(c byte) bool {
	return c >= '0' && c <= '9' || c >= 'a' && c <= 'f' || c >= 'A' && c <= 'F'
}

// scan splits a format (pct=true) or a %b / echo -e argument (pct=false) into directives and escapes.
func scan(f string, pct bool) (dirs []directive, escs []escape) {
	for i := 0; i < len(f); i++ {
		switch {
		case f[i] == '\\':
			i++
			if i >= len(f) {
				escs = append(escs, escape{})
				continue
			}
			e := escape{c: f[i]}
			if pct && e.c == '%' {
				// the backslash is literal, the % starts a directive
				escs = append(escs, e)
				i--
				continue
			}
			take := func(max int, pred func(byte) bool) {
				j := i + 1
				for j < len(f) && j-i-1 < max && pred(f[j]) {
					j++
				}
				e.digits = f[i+1 : j]
				i = j - 1
			}
			switch {
			case isOct(e.c):
				n := 2
				if !pct && e.c == '0' {
					n = 3
				}
				take(n, isOct)
			case e.c == 'x':
				take(2, isHex)
			case e.c == 'u':
				take(4, isHex)
			case e.c == 'U':
				take(8, isHex)
			}
			escs = append(escs, e)
		case pct && f[i] == '%':
			d := directive{}
			i++
			for i < len(f) && strings.IndexByte("#'-+ 0", f[i]) >= 0 {
				d.flags += string(f[i])
				i++
			}
			for i < len(f) && (f[i] == '*' || f[i] >= '0' && f[i] <= '9') {
				if f[i] == '*' {
					d.star = true
				}
				d.width += string(f[i])
				i++
			}
			if i < len(f) && f[i] == '.' {
				d.prec = true
				i++
				for i < len(f) && (f[i] == '*' || f[i] >= '0' && f[i] <= '9') {
					if f[i] == '*' {
						d.star = true
					}
					i++
				}
			}
			for i < len(f) && strings.IndexByte("hjlLtz", f[i]) >= 0 {
				d.mods += string(f[i])
				i++
			}
			if i < len(f) {
				d.conv = f[i]
			}
			dirs = append(dirs, d)
		}
	}
	return
}

var validInt = regexp.MustCompile(`^[+-]?(0[xX][0-9a-fA-F]+|0[0-7]*|[1-9][0-9]*)$`)

func add(l *[]string, s string) {
	for _, x := range *l {
		if x == s {
			return
		}
	}
	*l = append(*l, s)
}

// escape classes inside a %b argument or an echo -e argument
func bEscClasses(arg string, echo bool, cl *[]string) {
	_, escs := scan(arg, false)
	for _, e := range escs {
		switch {
		case e.c == 'c':
			add(cl, "b_backslash_c")
		case e.c == '\'' || e.c == '"' || e.c == '?':
			add(cl, "b_quote_escape")
		case echo && e.c >= '1' && e.c <= '7':
			add(cl, "echo_bare_octal")
		case e.c == 'u' || e.c == 'U':
			uniClass(e, cl)
		}
	}
}

func uniClass(e escape, cl *[]string) {
	if e.digits == "" {
		return
	}
	n, _ := strconv.ParseUint(e.digits, 16, 64)
	if n >= 0xd800 && n <= 0xdfff || n > 0x10ffff {
		add(cl, "unicode_escape_nonscalar")
	}
}

// does a %b argument expand to bytes below 0x80 only? (decided on the input: raw bytes and escape values)
func bExpandsToASCII(arg string) bool {
	if !ascii(arg) {
		return false
	}
	_, escs := scan(arg, false)
	for _, e := range escs {
		switch {
		case isOct(e.c):
			d := e.digits
			if e.c != '0' {
				d = string(e.c) + d
			}
			if n, _ := strconv.ParseUint("0"+d, 8, 32); n%256 >= 0x80 {
				return false
			}
		case e.c == 'x' || e.c == 'u' || e.c == 'U':
			if n, _ := strconv.ParseUint("0"+e.digits, 16, 64); e.digits != "" && n >= 0x80 {
				return false
			}
		}
	}
	return true
}

func ascii(s string) bool {
	for i := 0; i < len(s); i++ {
		if s[i] >= 0x80 {
			return false
		}
	}
	return true
}

func classify(k kase) (cl, ood []string) {
	cl, ood = []string{}, []string{}
	if k.Kind == "echo" {
		args := k.Args
		doExpand := false
	opts:
		for len(args) > 0 {
			a := args[0]
			switch {
			case a == "-n" || a == "-E":
				if a == "-E" {
					doExpand = false
				}
			case a == "-e":
				doExpand = true
			case len(a) > 2 && a[0] == '-' && strings.Trim(a[1:], "neE") == "":
				for _, c := range a[1:] {
					if c == 'e' {
						doExpand = true
					} else if c == 'E' {
						doExpand = false
					}
				}
			default:
				break opts
			}
			args = args[1:]
		}
		if doExpand {
			for _, a := range args {
				bEscClasses(a, true, &cl)
			}
		}
		return
	}
	if strings.HasPrefix(k.Fmt, "-") {
		add(&ood, "format_looks_like_option")
	}
	dirs, escs := scan(k.Fmt, true)
	for _, e := range escs {
		if e.c == 'u' || e.c == 'U' {
			uniClass(e, &cl)
		}
	}
	consuming := 0
	for _, d := range dirs {
		if d.conv != '%' && d.conv != 0 {
			consuming++
		}
		if d.star {
			add(&ood, "star_width")
		}
		if d.mods != "" {
			add(&ood, "length_modifier")
		}
		if d.conv != 0 && strings.IndexByte("sbcdiuox%", d.conv) < 0 {
			add(&ood, "conversion_outside_property")
		}
		if strings.ContainsAny(d.flags, "#'") {
			add(&ood, "flag_outside_property")
		}
		if d.prec {
			add(&cl, "precision_rejected")
		}
		if d.conv == 0 {
			add(&cl, "incomplete_directive_output")
		}
		// the code accepts: one optional flag of "+- " directly after %, then digits
		fl := d.flags
		if len(fl) > 0 && strings.IndexByte("+- ", fl[0]) >= 0 {
			fl = fl[1:]
		}
		if strings.Trim(fl, "0") != "" {
			add(&cl, "multiple_flags_rejected")
		}
		zero := strings.Contains(d.flags, "0") && !strings.Contains(d.flags, "-")
		wid, _ := strconv.Atoi(d.width)
		switch d.conv {
		case '%':
			if d.flags != "" || d.width != "" {
				add(&cl, "percent_with_flags_or_width")
			}
		case 's', 'c', 'b':
			if zero && wid > 0 {
				add(&cl, "zero_flag_on_string")
			}
		case 'u', 'o', 'x':
			if strings.ContainsAny(d.flags, "+ ") {
				add(&cl, "sign_flag_on_unsigned")
			}
		}
	}
	// walk the arguments the way printf consumes them (reuse while arguments remain)
	args := k.Args
	for round := 0; round == 0 || (len(args) > 0 && consuming > 0); round++ {
		for _, d := range dirs {
			if d.conv == '%' || d.conv == 0 {
				continue
			}
			arg, have := "", false
			if len(args) > 0 {
				arg, args, have = args[0], args[1:], true
			}
			wid, _ := strconv.Atoi(d.width)
			switch d.conv {
			case 'b':
				bEscClasses(arg, false, &cl)
				if wid > 0 && !bExpandsToASCII(arg) {
					add(&cl, "width_counts_runes")
				}
			case 's':
				if wid > 0 && !ascii(arg) {
					add(&cl, "width_counts_runes")
				}
			case 'd', 'i', 'u', 'o', 'x':
				if !have || arg == "" {
					break
				}
				switch {
				case arg[0] == '\'' || arg[0] == '"':
					add(&cl, "char_constant_argument")
				case !validInt.MatchString(arg):
					add(&cl, "invalid_number_argument")
				default:
					if _, err := strconv.ParseInt(arg, 0, 64); err != nil && d.conv != 'd' && d.conv != 'i' {
						add(&cl, "unsigned_beyond_int64")
					}
				}
			}
		}
		if round > 10000 {
			break
		}
	}
	return
}

// ---------------------------------------------------------------- generators

var escPool = []string{`\a`, `\b`, `\e`, `\E`, `\f`, `\n`, `\r`, `\t`, `\v`, `\\`, `\101`, `\7`, `\60`, `\0`, `\377`, `\400`,
	`\1018`, `\18`, `\x41`, `\x7`, `\xfF`, `\x`, `\xg`, `é`, `\u41`, `€`, `\U0001F600`, `\u`, `\q`, `\z`, `\"`, `\'`, `\?`}

var litPool = []string{"a", "b", "x", " ", "|", "-", "0", "7", "é", "\xff", ":", "ab", "\n", "%%"}

func genEsc(r *rand.Rand) string {
	switch r.IntN(8) {
	case 0: // random octal
		n := 1 + r.IntN(3)
		s := `\`
		for i := 0; i < n; i++ {
			s += string(rune('0' + r.IntN(8)))
		}
		return s
	case 1: // random hex
		n := r.IntN(3)
		s := `\x`
		for i := 0; i < n; i++ {
			s += string("0123456789abcdefABCDEF"[r.IntN(22)])
		}
		return s
	case 2:
		return fmt.Sprintf(`\u%04x`, hx.Pick(r, []int{0x41, 0x7f, 0x80, 0xe9, 0x7ff, 0x800, 0x20ac, 0xd7ff, 0xe000, 0xfffd, 0xffff}))
	default:
		return hx.Pick(r, escPool)
	}
}

func genNumArg(r *rand.Rand) string {
	switch r.IntN(16) {
	case 0:
		return ""
	case 1:
		return "0"
	case 2:
		return "-" + strconv.Itoa(r.IntN(1000))
	case 3:
		return "+" + strconv.Itoa(r.IntN(1000))
	case 4:
		return fmt.Sprintf("0x%x", r.IntN(70000))
	case 5:
		return fmt.Sprintf("0%o", r.IntN(5000))
	case 6:
		return fmt.Sprintf("-0X%X", r.IntN(70000))
	case 7:
		return hx.Pick(r, []string{"9223372036854775807", "-9223372036854775808", "9223372036854775808", "-9223372036854775809",
			"99999999999999999999", "4294967296", "-1", "255", "-255", "0x7fffffffffffffff", "-0", "+0", "007", "00"})
	default:
		return strconv.Itoa(r.IntN(100000))
	}
}

func genStrArg(r *rand.Rand) string {
	switch r.IntN(10) {
	case 0:
		return ""
	case 1:
		return hx.Pick(r, []string{"%s", "%d", "%", "a%sb", `a\nb`, `\t`, "-n", "-e", "--", "'", `"`, " x "})
	default:
		n := 1 + r.IntN(4)
		s := ""
		for i := 0; i < n; i++ {
			s += hx.Pick(r, []string{"a", "b", "c", "z", "A", "1", "0", " ", "-", "_", "x", "hello"})
		}
		return s
	}
}

func genBArg(r *rand.Rand) string {
	n := r.IntN(5)
	s := ""
	for i := 0; i < n; i++ {
		switch r.IntN(4) {
		case 0, 1:
			e := genEsc(r)
			if e == `\'` || e == `\"` || e == `\?` {
				e = `\\`
			}
			s += e
		case 2:
			s += hx.Pick(r, []string{`\0101`, `\0`, `\07`, `\0377`, `\0400`, `\01018`, `\0777`, `\08`, `\101`, `\1011`})
		default:
			s += hx.Pick(r, litPool)
		}
	}
	return s
}

// a directive the code handles like bash (the proved scope), with the kind of argument it takes
func genDirective(r *rand.Rand) (string, byte) {
	conv := "sbcdiuox%"[r.IntN(9)]
	if conv == '%' {
		return "%%", conv
	}
	s := "%"
	signed := conv == 'd' || conv == 'i'
	switch r.IntN(6) {
	case 0:
		s += "-"
	case 1:
		if signed {
			s += "+"
		}
	case 2:
		if signed {
			s += " "
		}
	}
	if r.IntN(4) == 0 && conv != 's' && conv != 'c' && conv != 'b' {
		s += hx.Pick(r, []string{"0", "00"})
	}
	if r.IntN(2) == 0 {
		s += strconv.Itoa(1 + r.IntN(12))
	}
	return s + string(conv), conv
}

func genArgFor(r *rand.Rand, conv byte) string {
	switch conv {
	case 'b':
		return genBArg(r)
	case 's', 'c':
		return genStrArg(r)
	default:
		return genNumArg(r)
	}
}

// scope stream: formats made of literals, escapes and well-handled directives; arguments that fit;
// number of arguments from fewer than the directives to several rounds of reuse.
func genScope(r *rand.Rand) kase {
	n := 1 + r.IntN(6)
	f := ""
	var convs []byte
	for i := 0; i < n; i++ {
		switch r.IntN(5) {
		case 0:
			f += hx.Pick(r, litPool)
		case 1:
			f += genEsc(r)
		default:
			d, c := genDirective(r)
			if r.IntN(10) == 0 {
				f += `\` // literal backslash; the % after it still starts the directive
			}
			f += d
			if c != '%' {
				convs = append(convs, c)
			}
		}
	}
	if strings.HasPrefix(f, "-") {
		f = "x" + f
	}
	if r.IntN(12) == 0 {
		f += `\` // a lone backslash, only at the very end (before % it is the class backslash_percent)
	}
	var args []string
	na := 0
	if len(convs) > 0 {
		switch r.IntN(5) {
		case 0:
			na = r.IntN(len(convs) + 1) // fewer
		case 1, 2:
			na = len(convs)
		default:
			na = len(convs)*(1+r.IntN(3)) + r.IntN(len(convs)) // reuse, last round partial
		}
	} else {
		na = r.IntN(3)
	}
	for i := 0; i < na; i++ {
		if len(convs) == 0 {
			args = append(args, genStrArg(r))
		} else {
			args = append(args, genArgFor(r, convs[i%len(convs)]))
		}
	}
	return kase{Kind: "printf", Fmt: f, Args: args, Stream: "scope"}
}

// class stream: the same, with one feature of a listed known-finding class injected
func genClass(r *rand.Rand) kase {
	k := genScope(r)
	k.Stream = "class"
	switch r.IntN(14) {
	case 0:
		k.Fmt += hx.Pick(r, []string{"%05s", "%03c", "%08s"})
		k.Args = append(k.Args, "ab")
	case 1:
		k.Fmt += hx.Pick(r, []string{"%5b", "%-4b", "%2b"})
		k.Args = append(k.Args, `x\ty`)
	case 2:
		k.Fmt = hx.Pick(r, []string{"%+x", "% o", "%+u", "% 5x", "%+5u"}) + k.Fmt
		k.Args = append([]string{genNumArg(r)}, k.Args...)
	case 3:
		k.Fmt = hx.Pick(r, []string{"%+ d", "%-+5d", "%0-5d", "%--s", "%+-s", "% +i", "%-05d", "%0+3d"}) + k.Fmt
		k.Args = append([]string{"42"}, k.Args...)
	case 4:
		k.Fmt += hx.Pick(r, []string{"%", "%5", "%-", "%05"})
	case 5:
		k.Fmt += hx.Pick(r, []string{"%5%", "%-3%", "%0%", "% %"})
	case 6:
		k.Fmt = "%d" + k.Fmt
		k.Args = append([]string{hx.Pick(r, []string{"abc", "12abc", " 5", "5 ", "0b11", "0o17", "1_0", "0x", "08", "1e3", "--1", "+", "-", "1.5", "é"})}, k.Args...)
	case 7:
		k.Fmt = hx.Pick(r, []string{"%d", "%x", "%5d", "%u"}) + k.Fmt
		k.Args = append([]string{hx.Pick(r, []string{"'a", `"a`, "'", "'é", "'ab", `"`})}, k.Args...)
	case 8:
		k.Fmt = hx.Pick(r, []string{"%u", "%x", "%o"}) + k.Fmt
		k.Args = append([]string{hx.Pick(r, []string{"18446744073709551615", "9223372036854775808", "-9223372036854775809", "99999999999999999999"})}, k.Args...)
	case 9:
		k.Fmt = "%b" + k.Fmt
		k.Args = append([]string{hx.Pick(r, []string{`a\cb`, `\c`, `x\'y`, `\"`, `a\?`, `\c\n`})}, k.Args...)
	case 10:
		k.Fmt = hx.Pick(r, []string{"%5s", "%-4s", "%2s"}) + "|" + k.Fmt
		k.Args = append([]string{hx.Pick(r, []string{"é", "aé", "\xff", "€uro", "日本"})}, k.Args...)
	case 11:
		k.Fmt += hx.Pick(r, []string{`\ud800`, `\udfff`, `\U00110000`, `\UFFFFFFFF`, `\U7fffffff`})
	case 12:
		k.Fmt += hx.Pick(r, []string{"%.2s", "%5.1s", "%.3d", "%.s", "%.0d"})
		k.Args = append(k.Args, "abcdef")
	case 13:
		return genEcho(r, true)
	}
	return k
}

func genEcho(r *rand.Rand, class bool) kase {
	k := kase{Kind: "echo", Stream: "echo"}
	for _, o := range []string{"-n", "-e", "-E", "-e"} {
		if r.IntN(2) == 0 {
			k.Args = append(k.Args, o)
		}
	}
	if r.IntN(3) > 0 {
		k.Args = append([]string{hx.Pick(r, []string{"-e", "-e", "-ne", "-en", "-Ee", "-nEe", "-ee"})}, k.Args...)
	}
	if r.IntN(8) == 0 {
		k.Args = append(k.Args, hx.Pick(r, []string{"-", "-nx", "--", "-e-", "-N"})) // not option words
	}
	if class {
		k.Stream = "class"
		switch 1 + r.IntN(2) {
		case 1:
			k.Args = append(k.Args, "-e", hx.Pick(r, []string{`a\cb`, `\c`, `x\'`, `\"q`, `\?`}))
		case 2:
			k.Args = append(k.Args, "-e", hx.Pick(r, []string{`\101`, `a\7b`, `\18`, `\377`}))
		}
	}
	n := r.IntN(4)
	for i := 0; i < n; i++ {
		switch r.IntN(3) {
		case 0:
			k.Args = append(k.Args, genStrArg(r))
		default:
			a := genBArg(r)
			if !class {
				// echo -e does not take \NNN: keep only \0NNN forms in the scope stream
				a = regexp.MustCompile(`\\[1-7]`).ReplaceAllString(a, `\0`)
			}
			k.Args = append(k.Args, a)
		}
	}
	return k
}

var longDigits = regexp.MustCompile(`[0-9]{4,}`)

// malformed stream: arbitrary short byte strings over an alphabet rich in %, \, digits, flags
// (no '*': bash takes the width from an argument, e.g. 33211 columns of padding; outside the property anyway)
func genMalformed(r *rand.Rand) kase {
	alpha := []string{"%", "%", "\\", "0", "1", "5", "8", "9", "-", "+", " ", "#", ".", "s", "b", "c", "d", "i", "u", "o", "x", "X",
		"q", "z", "l", "a", "n", "e", "f", "U", "'", "\"", "?", "\xff", "é", "7", "A", "f"}
	n := r.IntN(9)
	f := ""
	for i := 0; i < n; i++ {
		f += hx.Pick(r, alpha)
	}
	// widths stay below 1000: a 6-digit width is a megabyte of padding per case (and the Coq case file is a literal)
	f = longDigits.ReplaceAllStringFunc(f, func(d string) string { return d[:3] })
	na := r.IntN(4)
	var args []string
	for i := 0; i < na; i++ {
		if r.IntN(2) == 0 {
			args = append(args, genNumArg(r))
		} else {
			m := r.IntN(4)
			s := ""
			for j := 0; j < m; j++ {
				s += hx.Pick(r, alpha)
			}
			args = append(args, s)
		}
	}
	return kase{Kind: "printf", Fmt: f, Args: args, Stream: "malformed"}
}

// pinned witnesses: one per known-finding class, plus the repaired ones (must agree with bash now)
var pinned = []kase{
	{Kind: "printf", Fmt: "%b", Args: []string{`a\0101b`}, Stream: "pinned-fixed"},
	{Kind: "echo", Args: []string{"-e", `a\0101b`}, Stream: "pinned-fixed"},
	{Kind: "printf", Fmt: "%5c|", Args: []string{"x"}, Stream: "pinned-fixed"},
	{Kind: "printf", Fmt: `\18\400`, Args: nil, Stream: "pinned-fixed"},
	{Kind: "echo", Args: []string{"-e", "-E", `a\tb`}, Stream: "pinned-fixed"},
	{Kind: "printf", Fmt: "%.2s", Args: []string{"abcdef"}, Stream: "pinned"},
	{Kind: "printf", Fmt: "%d", Args: []string{"abc"}, Stream: "pinned"},
	{Kind: "printf", Fmt: "%d", Args: []string{"'a"}, Stream: "pinned"},
	{Kind: "printf", Fmt: "%05s|", Args: []string{"ab"}, Stream: "pinned"},
	{Kind: "printf", Fmt: "%5b|", Args: []string{"x"}, Stream: "pinned-fixed"},
	{Kind: "printf", Fmt: "%+x", Args: []string{"255"}, Stream: "pinned"},
	{Kind: "printf", Fmt: "%+ d", Args: []string{"5"}, Stream: "pinned"},
	{Kind: "printf", Fmt: "abc%", Args: nil, Stream: "pinned"},
	{Kind: "printf", Fmt: "%5%|", Args: nil, Stream: "pinned"},
	{Kind: "printf", Fmt: "%u", Args: []string{"18446744073709551615"}, Stream: "pinned"},
	{Kind: "printf", Fmt: "%b", Args: []string{`a\cb`, "x"}, Stream: "pinned"},
	{Kind: "printf", Fmt: "%b", Args: []string{`\'`}, Stream: "pinned"},
	{Kind: "printf", Fmt: "%5s|", Args: []string{"é"}, Stream: "pinned"},
	{Kind: "printf", Fmt: `\ud800`, Args: nil, Stream: "pinned"},
	{Kind: "printf", Fmt: `\%d|`, Args: []string{"7"}, Stream: "pinned-fixed"},
	{Kind: "echo", Args: []string{"-ne", `a\n`}, Stream: "pinned-fixed"},
	{Kind: "echo", Args: []string{"-e", `\101`}, Stream: "pinned"},
	{Kind: "echo", Args: []string{"-e", `a\cb`, "x"}, Stream: "pinned"},
}

func generate(seed uint64, n int) []kase {
	r := hx.Rand(seed, 24)
	cases := append([]kase{}, pinned...)
	for i := 0; i < n; i++ {
		switch {
		case i%10 < 6:
			cases = append(cases, genScope(r))
		case i%10 == 6:
			cases = append(cases, genEcho(r, false))
		case i%10 == 7:
			cases = append(cases, genClass(r))
		default:
			cases = append(cases, genMalformed(r))
		}
	}
	for i := range cases {
		if cases[i].Args == nil {
			cases[i].Args = []string{}
		}
	}
	return cases
}

// exhaustive stream (thorough tier): every format of length <= L over a small alphabet, with a fixed argument list
func exhaustive(L int) []kase {
	alpha := []string{"%", "\\", "0", "5", "-", "d", "s", "c", "x", "b", "8", "a"}
	var out []kase
	var rec func(prefix string, depth int)
	rec = func(prefix string, depth int) {
		if prefix != "" && !strings.HasPrefix(prefix, "-") {
			out = append(out, kase{Kind: "printf", Fmt: prefix, Args: []string{"12", "-3", `a\tb`}, Stream: "exhaustive"})
		}
		if depth == L {
			return
		}
		for _, a := range alpha {
			rec(prefix+a, depth+1)
		}
	}
	rec("", 0)
	return out
}

// regression corpus (-in FILE): minimised inputs kept from earlier detections, one JSON object per line
// {"kind":"printf"|"echo","fmt":...,"args":[...]}; visited first on every seed and tier, same oracles as generated cases.
func loadCorpus(path string) []kase {
	if path == "" {
		return nil
	}
	data, err := os.ReadFile(path)
	if err != nil {
		fmt.Fprintln(os.Stderr, "corpus:", err)
		os.Exit(2)
	}
	var out []kase
	for _, line := range strings.Split(string(data), "\n") {
		line = strings.TrimSpace(line)
		if line == "" || strings.HasPrefix(line, "#") {
			continue
		}
		var c struct {
			Kind, Fmt string
			Args      []string
		}
		if err := json.Unmarshal([]byte(line), &c); err != nil || (c.Kind != "printf" && c.Kind != "echo") {
			fmt.Fprintf(os.Stderr, "corpus: bad line %q: %v\n", line, err)
			os.Exit(2)
		}
		if c.Args == nil {
			c.Args = []string{}
		}
		out = append(out, kase{Kind: c.Kind, Fmt: c.Fmt, Args: c.Args, Stream: "regress"})
	}
	return out
}

func main() {
	o := hx.ParseArgs()
	defer hx.Flush()
	var cases []kase
	switch o.Mode {
	case "gen":
		cases = append(loadCorpus(o.In), generate(o.Seed, o.N)...)
	case "exhaustive":
		cases = exhaustive(o.N)
	default:
		fmt.Fprintln(os.Stderr, "modes: gen, exhaustive")
		os.Exit(2)
	}
	res := make([]obs, len(cases))
	for i, k := range cases {
		ob := &res[i]
		ob.I, ob.Kind, ob.Stream, ob.Fmt, ob.Args = i, k.Kind, k.Stream, hx.Hex(k.Fmt), hx.HexList(k.Args)
		if k.Kind == "printf" {
			formatObs(ob, k)
		}
		interpObs(ob, k)
		ob.Classes, ob.OOD = classify(k)
		ob.Fails = []string{}
	}
	if err := runBash(cases, res); err != nil {
		hx.Emit(map[string]any{"error": err.Error()})
		hx.Flush()
		os.Exit(3)
	}
	for i := range res {
		ob := &res[i]
		switch {
		case ob.ISt == -1:
			ob.Fails = append(ob.Fails, "interp_panics")
		case ob.ISt == -2:
			ob.Fails = append(ob.Fails, "interp_hangs")
		case ob.ISt == -3:
			ob.Fails = append(ob.Fails, "interp_run_error")
		default:
			if ob.IOut != ob.BOut {
				ob.Fails = append(ob.Fails, "stdout_differs_from_bash")
			}
			if ob.ISt != ob.BSt {
				ob.Fails = append(ob.Fails, "status_differs_from_bash")
			}
		}
		if ob.FErr == "P" || ob.NOut == "P" {
			ob.Fails = append(ob.Fails, "format_panics")
		}
		if len(ob.Fails) > 0 && len(ob.Classes) > 0 && ob.ISt >= 0 && ob.FErr != "P" {
			ob.Class = ob.Classes[0]
		}
		hx.Emit(ob)
	}
}
