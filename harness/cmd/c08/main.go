// c08: "Streaming, interactive and reused parsers agree with Parse".
//
//	c08 seq    StmtsSeq statements == Parse statements (DeepEqual, positions included), same error
//	c08 inter  InteractiveSeq fed one line at a time (deterministic line reader AND a real io.Pipe):
//	           batches yielded with Incomplete()==false concatenate to Parse's statements;
//	           Incomplete()==true only at a line boundary where a statement is open
//	c08 reuse  a Parser / Printer used before on 0-4 earlier inputs (valid, erroring, truncated, other entry
//	           points, other options, early break, failing writer) gives the same result as a fresh one
//	c08 fields reflection over Parser/Printer fields + behavioural poison probe -> rows for Gen/ParserFields.v
package main

import (
	"bytes"
	"errors"
	"fmt"
	"go/ast"
	goparser "go/parser"
	"go/token"
	"io"
	"math/rand/v2"
	"path/filepath"
	"reflect"
	"sort"
	"strings"
	"time"
	"unsafe"

	"mvdan.cc/sh/v3/syntax"
	"verifharness/hx"
	hs "verifharness/hxc06"
)

type caseObs struct {
	Mode  string   `json:"mode"`
	ID    string   `json:"id"`
	Hex   string   `json:"hex"`
	Lang  string   `json:"lang"`
	Valid bool     `json:"valid"`
	NStmt int      `json:"nstmt"`
	Fails []string `json:"fails,omitempty"`
	Class string   `json:"class,omitempty"`
	Note  string   `json:"note,omitempty"`
}

func inputs(seed uint64, tier string, n int) [][2]string {
	corpus := hs.Corpus(4000)
	parts := 6
	if tier == "thorough" {
		parts = 1
	}
	var out [][2]string
	for i, s := range hs.Regress("c08") { // minimised regression inputs run first
		out = append(out, [2]string{fmt.Sprintf("regress:%d", i), s})
	}
	for i, s := range hs.Always() {
		out = append(out, [2]string{fmt.Sprintf("pinned:%d", i), s})
	}
	for i, s := range corpus {
		if parts > 1 && uint64(i)%uint64(parts) != seed%uint64(parts) {
			continue
		}
		out = append(out, [2]string{fmt.Sprintf("corpus:%d", i), s})
	}
	for si, stream := range []string{"gen", "genposix", "mut", "mutgen"} {
		r := hx.Rand(seed, 810+uint64(si))
		for i := 0; i < n; i++ {
			out = append(out, [2]string{fmt.Sprintf("%s:%d:%d", stream, seed, i), hs.ByName(r, stream, corpus)})
		}
	}
	return out
}

func parseRef(src string, cfg hs.Cfg) (f *syntax.File, err error, panicked string) {
	defer func() {
		if r := recover(); r != nil {
			panicked = fmt.Sprint(r)
		}
	}()
	f, err = cfg.New().Parse(strings.NewReader(src), "")
	return
}

// ---------------------------------------------------------------- seq

func seqCase(id, src string, cfg hs.Cfg) caseObs {
	o := caseObs{Mode: "seq", ID: id, Hex: hx.Hex(src), Lang: cfg.Lang.String()}
	f, perr, pp := parseRef(src, cfg)
	if pp != "" {
		o.Note = "Parse panicked (C06's business)"
		return o
	}
	o.Valid = perr == nil
	o.NStmt = len(f.Stmts)
	var stmts []*syntax.Stmt
	var serr error
	nerr := 0
	pan, msg := hx.Try(func() {
		for s, e := range cfg.New().StmtsSeq(strings.NewReader(src)) {
			if e != nil {
				serr = e
				nerr++
			}
			if s != nil {
				stmts = append(stmts, s)
			}
		}
	})
	if pan {
		o.Fails = append(o.Fails, "stmtsseq_panics")
		o.Note = msg
		return o
	}
	if hs.ErrStr(serr) != hs.ErrStr(perr) {
		o.Fails = append(o.Fails, "stmtsseq_error_differs")
		o.Note = fmt.Sprintf("Parse err=%q StmtsSeq err=%q", hs.ErrStr(perr), hs.ErrStr(serr))
	}
	// the same, fed one line per Read (streaming): still Parse's statements
	if perr == nil {
		var lstmts []*syntax.Stmt
		var lerr error
		lp, _ := hx.Try(func() {
			for s, e := range cfg.New().StmtsSeq(&lineReader{src: src}) {
				if e != nil {
					lerr = e
				}
				if s != nil {
					lstmts = append(lstmts, s)
				}
			}
		})
		if lp || lerr != nil || len(lstmts) != len(f.Stmts) || (len(lstmts) > 0 && !reflect.DeepEqual(lstmts, f.Stmts)) {
			o.Fails = append(o.Fails, "stmtsseq_line_fed_differs_from_parse")
			o.Note += fmt.Sprintf(" line-fed: %d stmts err=%v", len(lstmts), lerr)
		}
	}
	_ = nerr // an error may be handed out twice (with the statement and at the end); the property does not forbid it
	if perr == nil {
		if len(stmts) != len(f.Stmts) || (len(stmts) > 0 && !reflect.DeepEqual(stmts, f.Stmts)) {
			o.Fails = append(o.Fails, "stmtsseq_statements_differ")
			o.Note = fmt.Sprintf("Parse %d stmts, StmtsSeq %d", len(f.Stmts), len(stmts))
		}
	}
	return o
}

// ---------------------------------------------------------------- interactive

// lineReader hands out the source one line per Read (a line longer than the buffer takes several Reads).
type lineReader struct {
	src       string
	off       int
	delivered int      // bytes handed out so far
	yielded   int      // statements handed out in complete batches so far (maintained by the callback loop)
	snaps     [][2]int // at every Read entry: (bytes delivered, statements handed out)
}

func (l *lineReader) Read(p []byte) (int, error) {
	l.snaps = append(l.snaps, [2]int{l.delivered, l.yielded})
	if l.off >= len(l.src) {
		return 0, io.EOF
	}
	end := strings.IndexByte(l.src[l.off:], '\n')
	if end < 0 {
		end = len(l.src)
	} else {
		end += l.off + 1
	}
	n := copy(p, l.src[l.off:end])
	l.off += n
	l.delivered = l.off
	return n, nil
}

type event struct {
	Delivered  int
	Stmts      []*syntax.Stmt
	Incomplete bool
	Err        string
}

func interRun(src string, cfg hs.Cfg, pipe bool) (evs []event, snaps [][2]int, panicked string, hung bool) {
	done := make(chan struct{})
	go func() {
		defer close(done)
		defer func() {
			if r := recover(); r != nil {
				panicked = fmt.Sprint(r)
			}
		}()
		p := cfg.New()
		var rd io.Reader
		var lr *lineReader
		if pipe {
			pr, pw := io.Pipe()
			go func() {
				for _, line := range strings.SplitAfter(src, "\n") {
					if line == "" {
						continue
					}
					if _, err := pw.Write([]byte(line)); err != nil {
						return
					}
				}
				pw.Close()
			}()
			rd = pr
			defer pr.Close()
		} else {
			lr = &lineReader{src: src}
			rd = lr
		}
		for stmts, err := range p.InteractiveSeq(rd) {
			ev := event{Incomplete: p.Incomplete(), Err: hs.ErrStr(err)}
			ev.Stmts = append(ev.Stmts, stmts...)
			if lr != nil {
				ev.Delivered = lr.delivered
				if err == nil && !ev.Incomplete {
					lr.yielded += len(stmts)
				}
			}
			evs = append(evs, ev)
			if len(evs) > 100000 {
				break
			}
		}
		if lr != nil {
			snaps = lr.snaps
		}
	}()
	select {
	case <-done:
	case <-time.After(20 * time.Second):
		hung = true
	}
	return
}

// endsInEscapedNewline: the text ends in backslash-newline or backslash-CR-newline as the reader sees it (NUL bytes are
// skipped by Parser.rune, so they are ignored here too).
func endsInEscapedNewline(s string) bool {
	t := strings.ReplaceAll(s, "\x00", "")
	return strings.HasSuffix(t, "\\\n") || strings.HasSuffix(t, "\\\r\n")
}

func endsInNewline(s string) bool {
	return strings.HasSuffix(strings.ReplaceAll(s, "\x00", ""), "\n")
}

func hasHeredoc(s *syntax.Stmt) bool {
	found := false
	syntax.Walk(s, func(n syntax.Node) bool {
		if r, ok := n.(*syntax.Redirect); ok && (r.Op == syntax.Hdoc || r.Op == syntax.DashHdoc) {
			found = true
		}
		return !found
	})
	return found
}

// extent: the largest End offset of any node inside the statement.
func extent(s *syntax.Stmt) int {
	m := 0
	syntax.Walk(s, func(n syntax.Node) bool {
		if n != nil {
			if e := n.End(); e.IsValid() && int(e.Offset()) > m {
				m = int(e.Offset())
			}
		}
		return true
	})
	return m
}

func interCase(id, src string, cfg hs.Cfg) caseObs {
	o := caseObs{Mode: "inter", ID: id, Hex: hx.Hex(src), Lang: cfg.Lang.String()}
	f, perr, pp := parseRef(src, cfg)
	if pp != "" {
		o.Note = "Parse panicked (C06's business)"
		return o
	}
	o.Valid = perr == nil
	o.NStmt = len(f.Stmts)
	evs, snaps, pan, hung := interRun(src, cfg, false)
	if hung {
		o.Fails = append(o.Fails, "interactive_hangs")
		return o
	}
	if pan != "" {
		o.Fails = append(o.Fails, "interactive_panics")
		o.Note = pan
		return o
	}
	// the same through a real blocking pipe: identical event sequence
	evp, _, pan2, hung2 := interRun(src, cfg, true)
	if hung2 || pan2 != "" {
		o.Fails = append(o.Fails, "interactive_pipe_hangs_or_panics")
	} else {
		same := len(evs) == len(evp)
		for i := 0; same && i < len(evs); i++ {
			same = evs[i].Incomplete == evp[i].Incomplete && evs[i].Err == evp[i].Err && len(evs[i].Stmts) == len(evp[i].Stmts) &&
				(len(evs[i].Stmts) == 0 || reflect.DeepEqual(evs[i].Stmts, evp[i].Stmts))
		}
		if !same {
			o.Fails = append(o.Fails, "interactive_pipe_differs_from_line_reader")
		}
	}
	lastErr := ""
	var got []*syntax.Stmt
	for _, ev := range evs {
		if ev.Err != "" {
			lastErr = ev.Err
			continue
		}
		if !ev.Incomplete {
			got = append(got, ev.Stmts...)
		}
	}
	if perr != nil {
		if lastErr != perr.Error() {
			o.Fails = append(o.Fails, "interactive_error_differs")
			o.Note = fmt.Sprintf("Parse err=%q Interactive err=%q", perr.Error(), lastErr)
		}
		return o
	}
	if lastErr != "" {
		o.Fails = append(o.Fails, "interactive_error_on_valid_input")
		o.Note = lastErr
		return o
	}
	if len(got) != len(f.Stmts) || (len(got) > 0 && !reflect.DeepEqual(got, f.Stmts)) {
		o.Fails = append(o.Fails, "interactive_statements_differ")
		o.Note = fmt.Sprintf("Parse %d stmts, complete batches hold %d", len(f.Stmts), len(got))
		if (!endsInNewline(src) || endsInEscapedNewline(src)) && len(got) < len(f.Stmts) && (len(got) == 0 || reflect.DeepEqual(got, f.Stmts[:len(got)])) {
			// the class: the input does not end in a newline, the batches are a proper prefix of Parse's statements,
			// and terminating the last line repairs it
			for _, tail := range []string{"\n", "\n\n"} {
				src2 := src + tail
				f2, e2, p2 := parseRef(src2, cfg)
				if e2 != nil || p2 != "" {
					continue
				}
				evs2, _, pan2, hung2 := interRun(src2, cfg, false)
				if pan2 != "" || hung2 {
					continue
				}
				var got2 []*syntax.Stmt
				for _, ev := range evs2 {
					if ev.Err == "" && !ev.Incomplete {
						got2 = append(got2, ev.Stmts...)
					}
				}
				if len(got2) == len(f2.Stmts) && reflect.DeepEqual(got2, f2.Stmts) {
					o.Class = "interactive_last_line_without_newline"
					break
				}
			}
			if o.Class == "" {
				// appending a newline may change the program itself (`let i+$+` is valid only at EOF): then the class is
				// decided on the tree: every statement that was not handed out lies on the unterminated last line
				lastNL := strings.LastIndexByte(src, '\n') + 1
				onLast := true
				for _, s := range f.Stmts[len(got):] {
					if extent(s) <= lastNL {
						onLast = false
					}
				}
				if onLast {
					o.Class = "interactive_last_line_without_newline"
				}
			}
		}
	}
	// promptness: when the reader is asked for the line after boundary d and the text up to d is a complete program of k
	// statements (Parse of that prefix succeeds), those k statements have all been handed out already
	seenB := map[int]bool{}
	for _, sn := range snaps {
		d := sn[0]
		if d <= 0 || d > len(src) || seenB[d] || src[d-1] != '\n' || endsInEscapedNewline(src[:d]) {
			continue
		}
		seenB[d] = true
		pf, pe, pp := parseRef(src[:d], cfg)
		if pp != "" || pe != nil {
			continue
		}
		if sn[1] != len(pf.Stmts) {
			o.Fails = append(o.Fails, "interactive_batch_not_handed_over_at_line_end")
			o.Note += fmt.Sprintf(" [after %d bytes %q is a complete program of %d statements, %d handed out when the next line is requested]",
				d, trunc(src[:d], 60), len(pf.Stmts), sn[1])
			break
		}
	}
	// Incomplete only while a statement is open (geometry of the final tree)
	for _, ev := range evs {
		d := ev.Delivered
		open, unknown := false, false
		for _, s := range f.Stmts {
			st := int(s.Pos().Offset())
			if st < d && extent(s) > d {
				open = true
			}
			if st < d && hasHeredoc(s) && extent(s) <= d {
				unknown = true // the delimiter line is not part of the tree
			}
		}
		if endsInEscapedNewline(src[:d]) {
			unknown = true // the line ends in backslash-newline: whether it continues a statement is not visible in the tree
		}
		if ev.Incomplete && !open && !unknown {
			o.Fails = append(o.Fails, "incomplete_reported_with_no_open_statement")
			o.Note += fmt.Sprintf(" [boundary %d]", d)
			break
		}
		if !ev.Incomplete && open && len(ev.Stmts) > 0 {
			// a batch was handed out as complete although a statement spans the boundary
			for _, s := range ev.Stmts {
				if extent(s) > d {
					o.Fails = append(o.Fails, "complete_batch_holds_open_statement")
					o.Note += fmt.Sprintf(" [boundary %d]", d)
					break
				}
			}
		}
	}
	return o
}

// ---------------------------------------------------------------- reuse

type step struct {
	Entry string
	Src   string
	Cfg   hs.Cfg
	Break int // >0: stop the iterator after this many yields
}

func runStep(p *syntax.Parser, s step) (nodes []syntax.Node, errs string, panicked string) {
	defer func() {
		if r := recover(); r != nil {
			panicked = fmt.Sprint(r)
		}
	}()
	// StopAt cannot be switched off again through the API (StopAt("") stops at every word), so it is fixed per
	// parser instance: Cfg.Options() only re-applies it when non-empty, and histories keep the instance's value.
	for _, o := range s.Cfg.Options() {
		o(p)
	}
	if s.Cfg.Recover == 0 {
		syntax.RecoverErrors(0)(p)
	}
	rd := strings.NewReader(s.Src)
	n := 0
	switch s.Entry {
	case "StmtsSeq":
		for st, err := range p.StmtsSeq(rd) {
			if err != nil {
				errs = err.Error()
			}
			if st != nil {
				nodes = append(nodes, st)
			}
			if n++; s.Break > 0 && n >= s.Break {
				break
			}
		}
	case "WordsSeq":
		for w, err := range p.WordsSeq(rd) {
			if err != nil {
				errs = err.Error()
			}
			if w != nil {
				nodes = append(nodes, w)
			}
			if n++; s.Break > 0 && n >= s.Break {
				break
			}
		}
	case "InteractiveSeq":
		for stmts, err := range p.InteractiveSeq(rd) {
			if err != nil {
				errs = err.Error()
			}
			if !p.Incomplete() {
				for _, st := range stmts {
					nodes = append(nodes, st)
				}
			}
			if n++; s.Break > 0 && n >= s.Break {
				break
			}
		}
	default:
		res := hs.Call(p, s.Entry, s.Src)
		if res.Panic != "" {
			panic(res.Panic)
		}
		return res.Nodes, hs.ErrStr(res.Err), ""
	}
	return
}

// inputs that leave the most state behind when they fail (unclosed constructs of every kind)
var dirtySrcs = []string{"foo `bar \" ${", "echo `", "a <<E\nb", "$((", "[[ a =~ (", "[[ a =~ a(b", "\"", "'", "${a", "`\\`", "echo \"`a \\\"",
	"a\\", "a #c", "if", "((a", "$(a `b", "`a \"`b\\`", "\\", "a \\\n", "[[ a =~ ((", "`echo \\`x", "echo \"`", "a <<-E\n\tb", "x=(a", "a | ", "f() {",
	"case x in a) ", "$(( (1", "${a:-\"", "`a\n# c", "# c", "a; `", "\"$(", "<(a", "let (", "@test 'a' {", "{ a; ", "a &&", "$'", "<<E", "a b\\\nc `"}

// inputs whose parse is sensitive to leftover lexer state (escapes, backquotes, regexps, comments, here-documents)
var sensitiveSrcs = []string{"echo \\$x \\\\ \\` \\\"", "\"a\\\"b\\$c\"", "[[ a =~ b(c)d ]]\n[[ a =~ ) ]]", "echo `a \\`b\\` c`", "a # c\nb # d\n", "cat <<E\n$x \\$y\nE\nfoo",
	"echo \"`echo \\\"x\\\"`\"", "a=1 b=(c d) e", "x \\\n y", "if a; then b; fi # c", "$((a[1] + b))", "echo $'a\\nb' \\\\", "f() { a; }; g", "`\\\\`", "echo \\\n`a`"}

func genStep(r *rand.Rand, corpus []string) step {
	s := step{Entry: hx.Pick(r, hs.Entries), Cfg: hs.Cfg{Lang: hx.Pick(r, hs.Langs), Keep: r.IntN(2) == 0, StopAt: hx.Pick(r, []string{"", "", "$$", "x"}), Recover: r.IntN(3)}}
	switch r.IntN(7) {
	case 0: // truncated valid program
		c := corpus[r.IntN(len(corpus))]
		s.Src = c[:r.IntN(len(c)+1)]
	case 1:
		s.Src = hs.RandomBytes(r)
	case 2, 4:
		s.Src = hx.Pick(r, dirtySrcs)
	case 3:
		s.Src = hs.Mutate(r, corpus[r.IntN(len(corpus))], corpus)
	default:
		s.Src = hs.ByName(r, hx.Pick(r, []string{"gen", "genposix", "word", "arith"}), corpus)
	}
	if (s.Entry == "StmtsSeq" || s.Entry == "WordsSeq" || s.Entry == "InteractiveSeq") && r.IntN(3) == 0 {
		s.Break = 1 + r.IntN(2)
	}
	return s
}

func nodesEqual(a, b []syntax.Node) bool {
	if len(a) != len(b) {
		return false
	}
	for i := range a {
		if !reflect.DeepEqual(a[i], b[i]) {
			return false
		}
	}
	return true
}

type failWriter struct{ n int }

func (f *failWriter) Write(p []byte) (int, error) {
	if f.n -= len(p); f.n < 0 {
		return 0, errors.New("write failed")
	}
	return len(p), nil
}

func printWith(p *syntax.Printer, n syntax.Node) (out string, errs string, panicked string) {
	defer func() {
		if r := recover(); r != nil {
			panicked = fmt.Sprint(r)
		}
	}()
	var b bytes.Buffer
	err := p.Print(&b, n)
	return b.String(), hs.ErrStr(err), ""
}

func reuseCase(id string, r *rand.Rand, corpus []string, src string) []caseObs {
	var out []caseObs
	// ---- parser
	test := genStep(r, corpus)
	test.Src = src
	if r.IntN(4) == 0 {
		test.Src = hx.Pick(r, sensitiveSrcs)
		src = test.Src
	}
	test.Break = 0
	stop := test.Cfg.StopAt
	o := caseObs{Mode: "reuse-parser", ID: id, Hex: hx.Hex(src), Lang: test.Cfg.Lang.String()}
	fresh := syntax.NewParser()
	wantN, wantE, wantP := runStep(fresh, test)
	if wantP == "" {
		used := syntax.NewParser()
		k := r.IntN(5)
		var hist []string
		histPanic := false
		for i := 0; i < k; i++ {
			h := genStep(r, corpus)
			h.Cfg.StopAt = stop
			_, _, hp := runStep(used, h)
			hist = append(hist, fmt.Sprintf("%s(%s,%q,brk=%d)", h.Entry, h.Cfg, trunc(h.Src, 60), h.Break))
			if hp != "" {
				histPanic = true
			}
		}
		gotN, gotE, gotP := runStep(used, test)
		o.Valid = wantE == ""
		o.NStmt = k
		if !histPanic {
			if gotP != "" {
				o.Fails = append(o.Fails, "reused_parser_panics")
				o.Note = gotP
			} else if gotE != wantE {
				o.Fails = append(o.Fails, "reused_parser_error_differs")
				o.Note = fmt.Sprintf("fresh=%q reused=%q", wantE, gotE)
			} else if wantE == "" && !nodesEqual(gotN, wantN) {
				o.Fails = append(o.Fails, "reused_parser_tree_differs")
			}
			if len(o.Fails) > 0 {
				o.Note += " entry=" + test.Entry + " cfg=" + test.Cfg.String() + " history=" + strings.Join(hist, " ; ")
			}
		}
		out = append(out, o)
	}
	// ---- printer
	f, perr, pp := parseRef(src, hs.Cfg{Lang: test.Cfg.Lang, Keep: true})
	if pp == "" && perr == nil {
		setName := hx.Pick(r, hs.PrinterSetNames)
		po := caseObs{Mode: "reuse-printer", ID: id, Hex: hx.Hex(src), Lang: test.Cfg.Lang.String(), Valid: true}
		testNode := pickNode(r, f)
		want, wantErr, wp := printWith(syntax.NewPrinter(hs.PrinterSets[setName]...), testNode)
		if wp == "" {
			used := syntax.NewPrinter(hs.PrinterSets[setName]...)
			k := r.IntN(5)
			po.NStmt = k
			var hist []string
			histPanic := false
			for i := 0; i < k; i++ {
				hsrc := corpus[r.IntN(len(corpus))]
				switch r.IntN(4) {
				case 0:
					hsrc = hx.Pick(r, printerDirty)
				case 1:
					hsrc = hx.Pick(r, hs.NestedMatrix())
				}
				hl := hx.Pick(r, hs.Langs)
				hf, herr, hp := parseRef(hsrc, hs.Cfg{Lang: hl, Keep: true, Recover: r.IntN(3)})
				if hp != "" || hf == nil {
					continue
				}
				node := pickNode(r, hf) // the file, a lone statement, command, word, word part or assignment
				kind := "ok"
				if herr != nil {
					kind = "partial-tree"
				}
				if r.IntN(4) == 0 {
					kind += "+failing-writer"
					_, pnk := hx.Try(func() { used.Print(&failWriter{n: r.IntN(40)}, node) })
					_ = pnk
				} else {
					_, _, hp2 := printWith(used, node)
					if hp2 != "" {
						histPanic = true
					}
				}
				hist = append(hist, fmt.Sprintf("%s:%q", kind, trunc(hsrc, 50)))
			}
			got, gotErr, gp := printWith(used, testNode)
			if !histPanic {
				if gp != "" {
					po.Fails = append(po.Fails, "reused_printer_panics")
					po.Note = gp
				} else if got != want || gotErr != wantErr {
					po.Fails = append(po.Fails, "reused_printer_output_differs")
					po.Note = fmt.Sprintf("fresh=%q reused=%q", trunc(want, 120), trunc(got, 120))
				}
				if len(po.Fails) > 0 {
					po.Note += fmt.Sprintf(" node=%T opts=%s history=%s", testNode, setName, strings.Join(hist, " ; "))
				}
			}
			out = append(out, po)
		}
	}
	return out
}

// printable: the node kinds Printer.Print supports, collected from a tree: the file, statements, commands, words, word
// parts, assignments.
func printable(f *syntax.File) (out []syntax.Node) {
	out = append(out, f)
	syntax.Walk(f, func(n syntax.Node) bool {
		switch n.(type) {
		case *syntax.Stmt, syntax.Command, *syntax.Word, syntax.WordPart, *syntax.Assign:
			if len(out) < 400 {
				out = append(out, n)
			}
		}
		return true
	})
	return out
}

// pickNode: the file itself, or (half of the time) one of its printable sub-nodes, commands preferred.
func pickNode(r *rand.Rand, f *syntax.File) syntax.Node {
	if r.IntN(2) == 0 {
		return f
	}
	all := printable(f)
	if r.IntN(2) == 0 {
		var cmds []syntax.Node
		for _, n := range all {
			if _, ok := n.(syntax.Command); ok {
				cmds = append(cmds, n)
			}
		}
		if len(cmds) > 0 {
			return cmds[r.IntN(len(cmds))]
		}
	}
	return all[r.IntN(len(all))]
}

// earlier printer inputs that end in every statement terminator / leave every kind of pending state
var printerDirty = []string{"a &", "a &\n", "a |& b", "a &|", "a &!", "a;", "a; b &", "{ a & }", "(a &)", "a | b &", "if a; then b & fi", "a # c", "a <<E\nx\nE", "a <<E &\nx\nE",
	"for i in a; do b & done", "case x in a) b & ;; esac", "f() { a & }", "a && b &", "! a &", "a >f &", "x=1 &", "[[ a ]] &", "((1)) &", "time a &", "a \\\n b &", "$(a &)", "`a &`", "a &\n# c"}

// printerCross (fixed enumeration): every "dirty" earlier input (one per statement terminator / pending state) x every
// printable node of every catalogue construct: Print(history) then Print(node) on one Printer must equal a fresh Printer's output.
func printerCross(o hx.Opts) {
	sets := []string{"default", hs.PrinterSetNames[1+int(o.Seed)%(len(hs.PrinterSetNames)-1)]}
	if o.Tier == "thorough" {
		sets = hs.PrinterSetNames
	}
	type tn struct {
		src  string
		node syntax.Node
	}
	var targets []tn
	for _, c := range hs.Catalogue {
		for _, l := range []syntax.LangVariant{syntax.LangBash, syntax.LangZsh, syntax.LangMirBSDKorn} {
			f, err, pp := parseRef(c, hs.Cfg{Lang: l, Keep: true})
			if pp != "" || err != nil {
				continue
			}
			nodes := printable(f)
			if len(nodes) > 12 {
				nodes = nodes[:12]
			}
			for _, n := range nodes {
				targets = append(targets, tn{c, n})
			}
			break
		}
	}
	// nested-context matrix: as histories against every catalogue file and against each other (whole files)
	nested := hs.NestedMatrix()
	var nestedFiles []tn
	for _, c := range nested {
		if f, err, pp := parseRef(c, hs.Cfg{Lang: syntax.LangBash, Keep: true}); pp == "" && err == nil {
			nestedFiles = append(nestedFiles, tn{c, f})
		}
	}
	var fileTargets []tn
	for _, t := range targets {
		if _, ok := t.node.(*syntax.File); ok {
			fileTargets = append(fileTargets, t)
		}
	}
	for _, setName := range sets {
		for hi, h := range nestedFiles {
			hs.SetCurrent("printer cross " + setName + " after nested " + h.src)
			nfail, npair := 0, 0
			// quick: each history against a rotating third of the nested files + all catalogue files; thorough: everything
			for ti, t := range append(append([]tn{}, nestedFiles...), fileTargets...) {
				if o.Tier != "thorough" && ti < len(nestedFiles) && (ti+hi+int(o.Seed))%3 != 0 && !strings.Contains(t.src, "<<-") {
					continue
				}
				want, wantErr, wp := printWith(syntax.NewPrinter(hs.PrinterSets[setName]...), t.node)
				if wp != "" {
					continue
				}
				used := syntax.NewPrinter(hs.PrinterSets[setName]...)
				if _, _, p1 := printWith(used, h.node); p1 != "" {
					continue
				}
				got, gotErr, gp := printWith(used, t.node)
				po := caseObs{Mode: "reuse-printer-cross", ID: "cross-nested", Hex: hx.Hex(t.src), Lang: "bash", Valid: true, NStmt: 1}
				if gp != "" {
					po.Fails = append(po.Fails, "reused_printer_panics")
				} else if got != want || gotErr != wantErr {
					po.Fails = append(po.Fails, "reused_printer_output_differs")
					po.Note = fmt.Sprintf("fresh=%q reused=%q opts=%s history=%q", trunc(want, 120), trunc(got, 120), setName, h.src)
				}
				npair++
				if len(po.Fails) > 0 {
					if nfail++; nfail > 2 {
						continue
					}
				} else if npair%40 != 0 {
					continue
				} else {
					po.NStmt = 40
				}
				hx.Emit(po)
			}
		}
	}
	for _, setName := range sets {
		for _, d := range printerDirty {
			hf, herr, hp := parseRef(d, hs.Cfg{Lang: syntax.LangBash, Keep: true})
			if hp != "" || herr != nil {
				continue
			}
			hs.SetCurrent("printer cross " + setName + " after " + d)
			nfail, npair := 0, 0
			for _, t := range targets {
				want, wantErr, wp := printWith(syntax.NewPrinter(hs.PrinterSets[setName]...), t.node)
				if wp != "" {
					continue
				}
				used := syntax.NewPrinter(hs.PrinterSets[setName]...)
				if _, _, p1 := printWith(used, hf); p1 != "" {
					continue
				}
				got, gotErr, gp := printWith(used, t.node)
				po := caseObs{Mode: "reuse-printer-cross", ID: "cross", Hex: hx.Hex(t.src), Lang: "bash", Valid: true, NStmt: 1}
				if gp != "" {
					po.Fails = append(po.Fails, "reused_printer_panics")
				} else if got != want || gotErr != wantErr {
					po.Fails = append(po.Fails, "reused_printer_output_differs")
					po.Note = fmt.Sprintf("fresh=%q reused=%q node=%T opts=%s history=%q", trunc(want, 100), trunc(got, 100), t.node, setName, d)
				}
				npair++
				if len(po.Fails) > 0 {
					if nfail++; nfail > 3 {
						continue
					}
				} else if npair%40 != 0 {
					continue // passing pairs: every 40th is reported (NStmt carries the weight)
				} else {
					po.NStmt = 40
				}
				hx.Emit(po)
			}
		}
	}
}

// interSessionCross (fixed enumeration): one Parser runs an earlier InteractiveSeq session to its end and then a second one;
// the callback sequence of the second session (batch sizes, statements, Incomplete, error) must be that of a fresh Parser.
func interSessionCross(o hx.Opts) {
	earlier := []string{"a\nb\nc\nd\ne\n", "foo", "a; b", "if x; then\ny\nfi\n", "# c\n\n\n\n", "a \\\n", "cat <<E\nx\n", "echo `", "a &&\n", "x\n\n\n\n\n\ny"}
	tests := append(hs.Regress("c08"), hs.HeredocLast...)
	session := func(p *syntax.Parser, src string) (evs []event, pan string) {
		defer func() {
			if r := recover(); r != nil {
				pan = fmt.Sprint(r)
			}
		}()
		for stmts, err := range p.InteractiveSeq(&lineReader{src: src}) {
			ev := event{Incomplete: p.Incomplete(), Err: hs.ErrStr(err)}
			ev.Stmts = append(ev.Stmts, stmts...)
			evs = append(evs, ev)
			if len(evs) > 10000 {
				break
			}
		}
		return
	}
	for li, l := range hs.Langs {
		for _, e := range earlier {
			for ti, t := range tests {
				if o.Tier != "thorough" && (ti+li)%2 != 0 && l != syntax.LangBash {
					continue
				}
				cfg := hs.Cfg{Lang: l, Keep: (ti+li)%2 == 0}
				hs.SetCurrent("interactive session cross " + hx.Hex(e) + " then " + hx.Hex(t))
				want, wp := session(cfg.New(), t)
				if wp != "" {
					continue
				}
				used := cfg.New()
				if _, ep := session(used, e); ep != "" {
					continue
				}
				got, gp := session(used, t)
				po := caseObs{Mode: "reuse-interactive-session", ID: "session-cross", Hex: hx.Hex(t), Lang: l.String(), Valid: true, NStmt: 1}
				same := gp == "" && len(got) == len(want)
				for i := 0; same && i < len(got); i++ {
					same = got[i].Incomplete == want[i].Incomplete && got[i].Err == want[i].Err && len(got[i].Stmts) == len(want[i].Stmts) &&
						(len(got[i].Stmts) == 0 || reflect.DeepEqual(got[i].Stmts, want[i].Stmts))
				}
				if !same {
					po.Fails = append(po.Fails, "second_interactive_session_differs_from_fresh")
					po.Note = fmt.Sprintf("earlier session %q; fresh gives %d callbacks, reused %d", e, len(want), len(got))
				}
				hx.Emit(po)
			}
		}
	}
}

func trunc(s string, n int) string {
	if len(s) > n {
		return s[:n] + "…"
	}
	return s
}

// ---------------------------------------------------------------- fields

type fieldRow struct {
	Struct       string `json:"struct"`
	Name         string `json:"name"`
	Type         string `json:"type"`
	ResetAssigns bool   `json:"reset_assigns"` // go/ast: assigned in the reset method
	Config       bool   `json:"config"`        // go/ast: assigned in a New*/option function (and nowhere in reset)
	EntryAssigns bool   `json:"entry_assigns"` // go/ast: assigned by every public entry point before any use (Parser.src, Parser.f)
	ProbeLive    bool   `json:"probe_live"`    // behaviour: poisoning the field of a used instance right before an API call changes a result
	ProbeCases   int    `json:"probe_cases"`
	Witness      string `json:"witness,omitempty"`
}

// assignedFields: names x such that `<recv>.x = ...` (or op-assign / inc) occurs in fn.
func assignedFields(fn ast.Node, recv string, out map[string]bool) {
	ast.Inspect(fn, func(n ast.Node) bool {
		mark := func(e ast.Expr) {
			for {
				switch x := e.(type) {
				case *ast.IndexExpr:
					e = x.X
					continue
				case *ast.ParenExpr:
					e = x.X
					continue
				}
				break
			}
			if se, ok := e.(*ast.SelectorExpr); ok {
				if id, ok := se.X.(*ast.Ident); ok && id.Name == recv {
					out[se.Sel.Name] = true
				}
			}
		}
		switch x := n.(type) {
		case *ast.AssignStmt:
			for _, l := range x.Lhs {
				mark(l)
			}
		case *ast.IncDecStmt:
			mark(x.X)
		case *ast.CompositeLit:
			// &Parser{lang: LangBash}
			if id, ok := x.Type.(*ast.Ident); ok && (id.Name == "Parser" || id.Name == "Printer") {
				for _, el := range x.Elts {
					if kv, ok := el.(*ast.KeyValueExpr); ok {
						if k, ok := kv.Key.(*ast.Ident); ok {
							out[k.Name] = true
						}
					}
				}
			}
		}
		return true
	})
}

func recvName(fd *ast.FuncDecl) (string, string) {
	if fd.Recv == nil || len(fd.Recv.List) != 1 {
		return "", ""
	}
	t := fd.Recv.List[0].Type
	if st, ok := t.(*ast.StarExpr); ok {
		t = st.X
	}
	id, ok := t.(*ast.Ident)
	if !ok || len(fd.Recv.List[0].Names) == 0 {
		return "", ""
	}
	return fd.Recv.List[0].Names[0].Name, id.Name
}

func astFacts(structName string, files []string, entries []string) (reset, config map[string]bool, entry map[string]bool) {
	reset, config = map[string]bool{}, map[string]bool{}
	var entrySets []map[string]bool
	for _, f := range files {
		fset := token.NewFileSet()
		af, err := goparser.ParseFile(fset, filepath.Join(hs.RepoDir(), "syntax", f), nil, 0)
		if err != nil {
			panic(err)
		}
		for _, d := range af.Decls {
			fd, ok := d.(*ast.FuncDecl)
			if !ok || fd.Body == nil {
				continue
			}
			rn, rt := recvName(fd)
			if rt == structName && fd.Name.Name == "reset" {
				assignedFields(fd.Body, rn, reset)
			}
			if rt == structName {
				for _, e := range entries {
					if fd.Name.Name == e {
						m := map[string]bool{}
						assignedFields(fd.Body, rn, m)
						entrySets = append(entrySets, m)
					}
				}
			}
			if fd.Recv == nil {
				// New<Struct> and option constructors: func X(...) <Struct>Option { return func(p *<Struct>) { p.f = ... } }
				isNew := fd.Name.Name == "New"+structName
				isOpt := false
				if fd.Type.Results != nil && len(fd.Type.Results.List) == 1 {
					if id, ok := fd.Type.Results.List[0].Type.(*ast.Ident); ok && id.Name == structName+"Option" {
						isOpt = true
					}
				}
				if isNew {
					assignedFields(fd.Body, "p", config)
				}
				if isOpt {
					ast.Inspect(fd.Body, func(n ast.Node) bool {
						if fl, ok := n.(*ast.FuncLit); ok && len(fl.Type.Params.List) == 1 && len(fl.Type.Params.List[0].Names) == 1 {
							assignedFields(fl.Body, fl.Type.Params.List[0].Names[0].Name, config)
						}
						return true
					})
				}
			}
		}
	}
	entry = map[string]bool{}
	if len(entrySets) == len(entries) && len(entries) > 0 {
		for k := range entrySets[0] {
			all := true
			for _, m := range entrySets[1:] {
				if !m[k] {
					all = false
				}
			}
			if all {
				entry[k] = true
			}
		}
	}
	return
}

func fields(o hx.Opts) {
	corpus := hs.Corpus(600)
	r := hx.Rand(o.Seed, 880)
	nProbe := 40
	if o.Tier == "thorough" {
		nProbe = 400
	}
	// probe inputs: erroring/truncated shapes first (they leave the most state behind), then corpus
	probes := []string{"echo `a`", "a <<E\nb\nE\n", "[[ a =~ (b) ]]", "echo \"`a \\\"b\\\"`\"", "# c\nfoo # d\n", "", "a", "a=1 b\n", "foo\n", "`\\`a\\``", "\"\\\"`b`\"", "if a; then b; fi", "$((1+2))", "a $'b' c", "`a \\`b\\` c`"}
	probes = append(probes, hs.Catalogue...) // one instance of every construct: every printing path is probed
	for i := 0; i < nProbe; i++ {
		probes = append(probes, corpus[r.IntN(len(corpus))])
	}
	dirty := []step{
		{Entry: "Parse", Src: "foo `bar \" ${", Cfg: hs.Cfg{Lang: syntax.LangBash, Keep: true}},
		{Entry: "Parse", Src: "[[ a =~ ((", Cfg: hs.Cfg{Lang: syntax.LangBash, Keep: true}},
		{Entry: "Parse", Src: "echo \"`a \\\"", Cfg: hs.Cfg{Lang: syntax.LangBash, Keep: true}},
		{Entry: "Document", Src: "a $(b", Cfg: hs.Cfg{Lang: syntax.LangBash, Keep: true}},
		{Entry: "Arithmetic", Src: "1 +", Cfg: hs.Cfg{Lang: syntax.LangBash, Keep: true}},
	}
	// ---- Parser
	resetA, configA, entryA := astFacts("Parser", []string{"parser.go", "lexer.go"}, []string{"Parse", "StmtsSeq", "WordsSeq", "Document", "Arithmetic"})
	for _, fld := range syntax.VerifParserFields() {
		hs.SetCurrent("fields probe Parser." + fld.Name)
		row := fieldRow{Struct: "Parser", Name: fld.Name, Type: fld.Type, ResetAssigns: resetA[fld.Name], Config: configA[fld.Name] && !resetA[fld.Name], EntryAssigns: entryA[fld.Name]}
		for pi, src := range probes {
			for _, entry := range []string{"Parse", "Arithmetic", "Document", "WordsSeq"} {
				if entry != "Parse" && pi%4 != 0 {
					continue
				}
				cfg := hs.Cfg{Lang: hs.Langs[pi%len(hs.Langs)], Keep: true}
				test := step{Entry: entry, Src: src, Cfg: cfg}
				wantN, wantE, wantP := runStep(syntax.NewParser(), test)
				if wantP != "" {
					continue
				}
				used := syntax.NewParser()
				runStep(used, dirty[pi%len(dirty)])
				// configure first, THEN poison, then call the bare entry point (no option is re-applied)
				for _, op := range cfg.Options() {
					op(used)
				}
				syntax.RecoverErrors(0)(used)
				if !syntax.VerifPoisonParser(used, fld.Name) {
					row.Witness = "cannot poison"
					break
				}
				res := callBare(used, entry, src)
				row.ProbeCases++
				if res.Panic != "" || hs.ErrStr(res.Err) != wantE || (wantE == "" && !nodesEqual(res.Nodes, wantN)) {
					row.ProbeLive = true
					if row.Witness == "" {
						row.Witness = fmt.Sprintf("%s %s %q", entry, cfg.Lang, trunc(src, 60))
					}
				}
			}
			if row.ProbeLive {
				break
			}
		}
		hx.Emit(row)
	}
	// ---- Printer
	resetB, configB, _ := astFacts("Printer", []string{"printer.go"}, nil)
	for _, fld := range syntax.VerifPrinterFields() {
		hs.SetCurrent("fields probe Printer." + fld.Name)
		row := fieldRow{Struct: "Printer", Name: fld.Name, Type: fld.Type, ResetAssigns: resetB[fld.Name], Config: configB[fld.Name] && !resetB[fld.Name]}
		for pi, src := range probes {
			f, perr, pp := parseRef(src, hs.Cfg{Lang: hs.Langs[pi%len(hs.Langs)], Keep: true})
			if pp != "" || perr != nil {
				continue
			}
			setName := hs.PrinterSetNames[pi%len(hs.PrinterSetNames)]
			nodes := printable(f)
			if len(nodes) > 14 {
				nodes = append(nodes[:1:1], nodes[1+pi%3:15]...)
			}
			for _, node := range nodes {
				want, wantErr, wp := printWith(syntax.NewPrinter(hs.PrinterSets[setName]...), node)
				if wp != "" {
					continue
				}
				used := syntax.NewPrinter(hs.PrinterSets[setName]...)
				if hf, herr, _ := parseRef("if a; then\n\tb <<E # c\nx\nE\nfi # d\n", hs.Cfg{Lang: syntax.LangBash, Keep: true}); herr == nil {
					hx.Try(func() { used.Print(&failWriter{n: 7}, hf) })
				}
				if !syntax.VerifPoisonPrinter(used, fld.Name) {
					row.Witness = "cannot poison"
					break
				}
				got, gotErr, gp := printWith(used, node)
				row.ProbeCases++
				if gp != "" || got != want || gotErr != wantErr {
					row.ProbeLive = true
					row.Witness = fmt.Sprintf("%s %T of %q", setName, node, trunc(src, 60))
					break
				}
			}
			if row.ProbeLive || row.Witness == "cannot poison" {
				break
			}
		}
		hx.Emit(row)
	}
	// ---- nested instances: a field that points to another Printer (allocated lazily by some printing path) carries state of
	// its own that Printer.reset never sees. Every field of the nested instance is probed too: the used printer first prints
	// inputs that make it allocate the nested instance, then the nested field is poisoned, then the API is called.
	printerType := reflect.TypeFor[syntax.Printer]()
	for i := range printerType.NumField() {
		pf := printerType.Field(i)
		if pf.Type.Kind() != reflect.Pointer || pf.Type.Elem() != printerType {
			continue
		}
		warm := []string{"cat <<-EOF\n\t$(a &&\n\t\tb)\n\tEOF\n", "if x; then\n\tcat <<-E\n\t\ta $(b |\n\t\t\tc)\n\tE\nfi\n"}
		var nestedProbes []string
		for _, c := range append(append([]string{}, hs.NestedMatrix()...), hs.Catalogue...) {
			if strings.Contains(c, "<<") {
				nestedProbes = append(nestedProbes, c)
			}
		}
		for _, fld := range syntax.VerifPrinterFields() {
			name := pf.Name + "." + fld.Name
			hs.SetCurrent("fields probe Printer." + name)
			row := fieldRow{Struct: "Printer", Name: name, Type: fld.Type}
			for pi, src := range nestedProbes {
				f, perr, pp := parseRef(src, hs.Cfg{Lang: syntax.LangBash, Keep: true})
				if pp != "" || perr != nil {
					continue
				}
				setName := []string{"default", "ind2bin", "single"}[pi%3]
				want, wantErr, wp := printWith(syntax.NewPrinter(hs.PrinterSets[setName]...), f)
				if wp != "" {
					continue
				}
				used := syntax.NewPrinter(hs.PrinterSets[setName]...)
				for _, w := range warm {
					if wf, werr, _ := parseRef(w, hs.Cfg{Lang: syntax.LangBash, Keep: true}); werr == nil {
						printWith(used, wf)
					}
				}
				nv := reflect.ValueOf(used).Elem().FieldByName(pf.Name)
				if nv.IsNil() {
					continue // this option set never allocates the nested instance
				}
				nested := (*syntax.Printer)(unsafe.Pointer(nv.Pointer()))
				if !syntax.VerifPoisonPrinter(nested, fld.Name) {
					row.Witness = "cannot poison"
					break
				}
				got, gotErr, gp := printWith(used, f)
				row.ProbeCases++
				if gp != "" || got != want || gotErr != wantErr {
					row.ProbeLive = true
					row.Witness = fmt.Sprintf("%s %q", setName, trunc(src, 80))
					break
				}
			}
			hx.Emit(row)
		}
	}
}

// ---------------------------------------------------------------- trace (code leg of Syntax/Interactive.v)

type traceObs struct {
	Mode   string  `json:"mode"`
	ID     string  `json:"id"`
	Hex    string  `json:"hex"`
	Lang   string  `json:"lang"`
	Events [][]int `json:"events"` // [0,rnl,line,inc] = ERead ; [1,id,err,nl,line,inc] = EStmt
	Outs   [][]int `json:"outs"`   // real InteractiveSeq callbacks: [len(batch), incomplete, err]
}

type recReader struct {
	rd  io.Reader
	p   *syntax.Parser
	evs *[][]int
}

func (r *recReader) Read(b []byte) (int, error) {
	rnl, line, _, inc := syntax.VerifInteractiveState(r.p)
	*r.evs = append(*r.evs, []int{0, b2i(rnl), int(line), b2i(inc)})
	return r.rd.Read(b)
}

func b2i(b bool) int {
	if b {
		return 1
	}
	return 0
}

func traceCase(id, src string, cfg hs.Cfg) (t traceObs, ok bool) {
	t = traceObs{Mode: "trace", ID: id, Hex: hx.Hex(src), Lang: cfg.Lang.String()}
	defer func() {
		if r := recover(); r != nil {
			ok = false
		}
	}()
	p := cfg.New()
	var evs [][]int
	n := 0
	for _, err := range p.StmtsSeq(&recReader{rd: &lineReader{src: src}, p: p, evs: &evs}) {
		_, line, nl, inc := syntax.VerifInteractiveState(p)
		evs = append(evs, []int{1, n, b2i(err != nil), b2i(nl), int(line), b2i(inc)})
		n++
		if len(evs) > 400 {
			return t, false
		}
	}
	t.Events = evs
	real, _, pan, hung := interRun(src, cfg, false)
	if pan != "" || hung {
		return t, false
	}
	for _, ev := range real {
		t.Outs = append(t.Outs, []int{len(ev.Stmts), b2i(ev.Incomplete), b2i(ev.Err != "")})
	}
	return t, len(evs) <= 400
}

// callBare runs one entry point without touching any option.
func callBare(p *syntax.Parser, entry, src string) hs.Result { return hs.Call(p, entry, src) }

func main() {
	o := hx.ParseArgs()
	defer hx.Flush()
	if o.Tier == "thorough" {
		hs.Guard(40*time.Minute, 3<<30)
	} else {
		hs.Guard(8*time.Minute, 3<<30)
	}
	switch o.Mode {
	case "seq", "inter":
		ins := inputs(o.Seed, o.Tier, o.N)
		r := hx.Rand(o.Seed, 801)
		for _, in := range ins {
			langs := []syntax.LangVariant{hs.Langs[r.IntN(len(hs.Langs))]}
			fixed := strings.HasPrefix(in[0], "regress") || strings.HasPrefix(in[0], "pinned")
			if o.Tier == "thorough" || strings.HasPrefix(in[0], "corpus") || fixed {
				langs = hs.Langs
			}
			for li, l := range langs {
				hs.SetCurrent(o.Mode + " " + l.String() + " " + hx.Hex(in[1]))
				hx.Flush()
				cfg := hs.Cfg{Lang: l, Keep: r.IntN(4) > 0}
				if fixed { // pinned inputs: both comment modes on every variant, independent of the seed
					cfg.Keep = li%2 == 0
					alt := hs.Cfg{Lang: l, Keep: !cfg.Keep}
					if o.Mode == "seq" {
						hx.Emit(seqCase(in[0], in[1], alt))
					} else {
						hx.Emit(interCase(in[0], in[1], alt))
					}
				}
				if o.Mode == "seq" {
					hx.Emit(seqCase(in[0], in[1], cfg))
				} else {
					hx.Emit(interCase(in[0], in[1], cfg))
					if !strings.HasSuffix(in[1], "\n") {
						hx.Emit(interCase(in[0]+"+nl", in[1]+"\n", cfg))
					}
				}
			}
		}
	case "reuse":
		printerCross(o)
		interSessionCross(o)
		corpus := hs.Corpus(4000)
		ins := inputs(o.Seed, o.Tier, o.N)
		r := hx.Rand(o.Seed, 802)
		for _, in := range ins {
			hs.SetCurrent("reuse " + hx.Hex(in[1]))
			hx.Flush()
			for _, c := range reuseCase(in[0], r, corpus, in[1]) {
				hx.Emit(c)
			}
		}
	case "fields":
		fields(o)
	case "trace":
		ins := inputs(o.Seed, o.Tier, o.N)
		r := hx.Rand(o.Seed, 803)
		for _, in := range ins {
			if len(in[1]) > 300 {
				continue
			}
			src := in[1]
			if r.IntN(3) > 0 && !strings.HasSuffix(src, "\n") {
				src += "\n"
			}
			hs.SetCurrent("trace " + hx.Hex(src))
			if t, ok := traceCase(in[0], src, hs.Cfg{Lang: hs.Langs[r.IntN(len(hs.Langs))], Keep: r.IntN(2) == 0}); ok {
				hx.Emit(t)
			}
		}
	case "one":
		// replay: -in FILE holding "<mode> <lang> <hex>"
		panic("use check --replay")
	}
	_ = sort.Strings
}
