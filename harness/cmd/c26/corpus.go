package main

// The pinned corpus: the program literals of /repo/interp/interp_test.go, read with
// go/parser AS DATA (the test file is never compiled or run), filtered by the safety
// rule of DESIGN 3.5: only programs whose every command word is a builtin, a keyword
// or a function they define, and which mention nothing dangerous.

import (
	"go/ast"
	"go/parser"
	"go/token"
	"os"
	"regexp"
	"sort"
	"strconv"
	"strings"

	"mvdan.cc/sh/v3/interp"
	"mvdan.cc/sh/v3/syntax"
)

var unsafeText = regexp.MustCompile(`kill|exec|ulimit|/dev/|\$\$|\$PPID|\$BASHPID|\$!|trap[^;]*\b(INT|TERM|HUP|QUIT|USR1|USR2|SIG[A-Z]+|[0-9]+)\b|\bfg\b|\bbg\b|\bjobs\b|\bdisown\b|\bsuspend\b|\bsleep\b|\bcoproc\b|\bsource\b|\bcommand\b|\beval\b|\bchmod\b|\bmkfifo\b|\bhistory\b|\bbind\b|\benable\b|\blogout\b|\bnewgrp\b|\bumask\b|GOSH_|ENV_PROG|\$PWD|\$HOME|\$PATH|\$UID|\$EUID|\$GID|\$RANDOM|\$SECONDS|\$LINENO|\$SRANDOM|\$EPOCH|\$HOSTNAME|\$OSTYPE|\$BASH|\$SHELL|\$IFS.*<|\$TMPDIR|\$OLDPWD|\$INTERP_|\bdate\b|\btimes\b|\btime\b|\bhelp\b|\bshopt\b|\btype\b|\bhash\b|\balias\b|\bunalias\b|\bcd\b|\bpushd\b|\bpopd\b|\bdirs\b|\bpwd\b|~|\bselect\b|\bread\b.*-p|\bcompgen\b|\bcomplete\b|\bcaller\b|\bfc\b|@\(|\bdeclare -p\b|\bdeclare -f\b|\btypeset\b|\bset -o\b|\bset \+o\b|\bset -x\b|xtrace|\bset\s*$|\bset\s*;|\bset\s*\||\bexport\s*$|\bexport -p|\breadonly\s*$|\breadonly -p|\bnoglob\b|\bglobstar\b|\$_\b|\$-|\bwait\b|&\s*$|&\s*;|&\s*[a-z]|[^&|>]&[^&>]|\bmapfile\b|\breadarray\b`)

// commandWordsOK: every CallExpr's first word is a literal naming a builtin or a
// function defined in the program.
func commandWordsOK(f *syntax.File) bool {
	funcs := map[string]bool{}
	syntax.Walk(f, func(n syntax.Node) bool {
		if fd, ok := n.(*syntax.FuncDecl); ok && fd.Name != nil {
			funcs[fd.Name.Value] = true
		}
		return true
	})
	ok := true
	syntax.Walk(f, func(n syntax.Node) bool {
		switch x := n.(type) {
		case *syntax.CallExpr:
			if len(x.Args) == 0 {
				return true
			}
			name := x.Args[0].Lit()
			if name == "" || !(interp.IsBuiltin(name) || funcs[name]) {
				ok = false
			}
		case *syntax.ProcSubst, *syntax.CoprocClause, *syntax.TimeClause:
			ok = false
		case *syntax.Stmt:
			if x.Background || x.Disown || x.Coprocess {
				ok = false
			}
		case *syntax.Redirect:
			// file redirections only to plain relative names inside the scratch directory
			if x.Hdoc == nil && x.Word != nil {
				w := x.Word.Lit()
				switch x.Op {
				case syntax.DplIn, syntax.DplOut:
				default:
					if w == "" || strings.ContainsAny(w, "/~") || strings.HasPrefix(w, ".") {
						if x.Op != syntax.WordHdoc {
							ok = false
						}
					}
				}
			}
		}
		return ok
	})
	return ok
}

func corpusPrograms(path string) []string {
	if path == "" {
		repo := os.Getenv("VERIF_REPO")
		if repo == "" {
			repo = "/repo"
		}
		path = repo + "/interp/interp_test.go"
	}
	fset := token.NewFileSet()
	f, err := parser.ParseFile(fset, path, nil, 0)
	if err != nil {
		panic(err)
	}
	seen := map[string]bool{}
	var out []string
	ast.Inspect(f, func(n ast.Node) bool {
		vs, ok := n.(*ast.ValueSpec)
		if !ok || len(vs.Names) != 1 || len(vs.Values) != 1 {
			return true
		}
		switch vs.Names[0].Name {
		case "runTests", "runTestsUnix", "runTests64bit":
		default:
			return true
		}
		cl, ok := vs.Values[0].(*ast.CompositeLit)
		if !ok {
			return true
		}
		for _, el := range cl.Elts {
			it, ok := el.(*ast.CompositeLit)
			if !ok || len(it.Elts) < 1 {
				continue
			}
			bl, ok := it.Elts[0].(*ast.BasicLit)
			if !ok || bl.Kind != token.STRING {
				continue
			}
			src, err := strconv.Unquote(bl.Value)
			if err != nil || seen[src] {
				continue
			}
			seen[src] = true
			if len(src) > 2000 || unsafeText.MatchString(src) {
				continue
			}
			p := syntax.NewParser(syntax.Variant(syntax.LangBash))
			file, err := p.Parse(strings.NewReader(src), "")
			if err != nil || !commandWordsOK(file) {
				continue
			}
			out = append(out, src)
		}
		return false
	})
	sort.Strings(out)
	return out
}
