// c26: "The interpreter runs supported programs like bash" — Go side.
//
//	worker                         subprocess that runs programs with interp.Runner (see hxc26)
//	gen    -seed S -n N            CORE programs (language of coq/Interp/Core.v): source, Coq term,
//	                               and what interp.Runner did (stdout, status, variables)
//	wide   -seed S -n N            programs of the wider supported language: source + interp result
//	corpus                         program literals of /repo/interp/interp_test.go (go/parser, as data),
//	                               safety-filtered, + interp result
//	run    -in FILE                run the sources listed in FILE (one JSON {"src":..} per line)
//
// bash is run by checks/c26.py on the emitted sources.
package main

import (
	"bufio"
	"encoding/json"
	"os"
	"strings"

	"verifharness/hx"
	"verifharness/hxc26"
)

type caseOut struct {
	Src   string     `json:"src"`
	Coq   string     `json:"coq,omitempty"`
	Kind  string     `json:"kind,omitempty"`
	Odd   bool       `json:"odd,omitempty"`
	Class string     `json:"class,omitempty"`
	Name  string     `json:"name,omitempty"`
	Go    hxc26.Resp `json:"go"`
}

func runAll(srcs []string, vars []string) []hxc26.Resp {
	reqs := make([]hxc26.Req, len(srcs))
	for i, s := range srcs {
		reqs[i] = hxc26.Req{Src: s, TimeoutMs: 4000, CancelMs: -1, Vars: vars}
	}
	resps := hxc26.Pool{N: 6}.RunAll(reqs)
	// a deadline under load is not a verdict: re-run those alone with a 10x budget
	for i, r := range resps {
		if r.Timeout || r.Hang {
			reqs[i].TimeoutMs = 40000
			resps[i] = hxc26.Pool{N: 1}.RunAll(reqs[i : i+1])[0]
		}
	}
	return resps
}

func main() {
	if len(os.Args) > 1 && os.Args[1] == "worker" {
		hxc26.WorkerMain()
		return
	}
	o := hx.ParseArgs()
	defer hx.Flush()
	switch o.Mode {
	case "gen":
		r := hx.Rand(o.Seed, 26)
		g := &hxc26.Gen{R: r}
		var cases []caseOut
		var srcs []string
		for i := 0; i < o.N; i++ {
			g.Odd = i%10 == 9
			p := g.Program()
			c := caseOut{Src: hxc26.ListSrc(p, "; "), Coq: hxc26.ListCoq(p), Odd: g.Odd}
			cases = append(cases, c)
			srcs = append(srcs, c.Src)
		}
		resps := runAll(srcs, hxc26.CoreVars())
		for i := range cases {
			cases[i].Go = resps[i]
			hx.Emit(cases[i])
		}
	case "wide":
		r := hx.Rand(o.Seed, 2600)
		var cases []caseOut
		var srcs []string
		for i := 0; i < o.N; i++ {
			w := &wgen{r: r}
			c := caseOut{Src: w.program(), Kind: "wide"}
			cases = append(cases, c)
			srcs = append(srcs, c.Src)
		}
		resps := runAll(srcs, nil)
		for i := range cases {
			cases[i].Go = resps[i]
			hx.Emit(cases[i])
		}
	case "corpus":
		progs := corpusPrograms(o.In)
		var srcs []string
		for _, p := range progs {
			srcs = append(srcs, p)
		}
		resps := runAll(srcs, nil)
		for i, p := range progs {
			hx.Emit(caseOut{Src: p, Kind: "corpus", Go: resps[i]})
		}
	case "run":
		f, err := os.Open(o.In)
		if err != nil {
			panic(err)
		}
		var cases []caseOut
		var srcs []string
		sc := bufio.NewScanner(f)
		sc.Buffer(make([]byte, 1<<20), 1<<24)
		for sc.Scan() {
			line := strings.TrimSpace(sc.Text())
			if !strings.HasPrefix(line, "{") {
				continue
			}
			var c caseOut
			if json.Unmarshal([]byte(line), &c) != nil {
				continue
			}
			cases = append(cases, c)
			srcs = append(srcs, c.Src)
		}
		resps := runAll(srcs, hxc26.CoreVars())
		for i := range cases {
			cases[i].Go = resps[i]
			hx.Emit(cases[i])
		}
	}
}
