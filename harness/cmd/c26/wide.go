package main

import "math/rand/v2"

// wgen: generator of the wider supported language (see wide2.go once widened)
type wgen struct {
	r *rand.Rand
}

func (w *wgen) program() string { return "echo stub" }
