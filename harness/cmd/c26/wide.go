package main

// wgen: programs of the WIDER supported language for the direct interp-vs-bash search:
// functions with local variables, command substitution, arithmetic, [[ ]] and test, indexed
// arrays, here-strings and here-documents read by builtins, printf, case with glob patterns,
// set -e / pipefail, EXIT/ERR traps, break/continue levels, subshells, pipelines of builtins.
//
// Seed stability (DESIGN 3.7a): the domain is restricted to constructs on which the tree agrees
// with bash; what had to be left out is listed in notes/C26.md.  Everything is a builtin or a
// function of the program; no file outside the scratch directory is touched.

import (
	"fmt"
	"math/rand/v2"
	"strings"
)

type wgen struct {
	r      *rand.Rand
	nfunc  int
	inFunc bool
	inLoop int
	budget int
	nloop  int
	inSub  int
}

var wvars = []string{"a", "b", "c"}
var wvals = []string{"x", "yy", "7", "10", "ab c", "", "foo", "3"}

func (w *wgen) pick(l []string) string { return l[w.r.IntN(len(l))] }

func (w *wgen) val() string {
	switch w.r.IntN(6) {
	case 0:
		return "$" + w.pick(wvars)
	case 1:
		return `"$` + w.pick(wvars) + `"`
	case 2:
		return "$((" + w.arith() + "))"
	case 3:
		return `"` + w.pick(wvals) + `"`
	case 4:
		return "'" + w.pick(wvals) + "'"
	default:
		return w.pick([]string{"x", "yy", "7", "10", "foo", "3"})
	}
}

func (w *wgen) arith() string {
	atom := func() string {
		switch w.r.IntN(3) {
		case 0:
			return "n"
		case 1:
			return fmt.Sprint(w.r.IntN(20))
		default:
			return "${#a}"
		}
	}
	switch w.r.IntN(5) {
	case 0:
		return atom()
	case 1:
		return atom() + " + " + atom()
	case 2:
		return atom() + " * " + atom() + " - " + atom()
	case 3:
		return "(" + atom() + " + 1) % 5"
	default:
		return atom() + " > " + atom() + " ? 1 : 2"
	}
}

func (w *wgen) cond() string {
	switch w.r.IntN(9) {
	case 0:
		return "true"
	case 1:
		return "false"
	case 2:
		return `[ "$` + w.pick(wvars) + `" = ` + w.val() + ` ]`
	case 3:
		return `[[ $` + w.pick(wvars) + ` == ` + w.pick([]string{"x*", "*y", "?", "foo", "[a-c]*"}) + ` ]]`
	case 4:
		return `[ -n "$` + w.pick(wvars) + `" ]`
	case 5:
		return `(( ` + w.arith() + ` ))`
	case 6:
		return `test ` + fmt.Sprint(w.r.IntN(5)) + ` -lt "${n:-0}"`
	case 7:
		return `[[ -z $` + w.pick(wvars) + ` || $n -gt 2 ]]`
	default:
		if w.nfunc > 0 {
			return fmt.Sprintf("f%d", 1+w.r.IntN(w.nfunc))
		}
		return "true"
	}
}

func (w *wgen) simple() string {
	switch k := w.r.IntN(100); {
	case k < 22:
		return "echo " + w.val() + " " + w.val()
	case k < 32:
		return w.pick(wvars) + "=" + w.val()
	case k < 38:
		return "n=$((" + w.arith() + "))"
	case k < 43:
		// (one quoted argument per conversion: `printf %d word` status is C24's finding)
		return `printf '%s-%d\n' "` + w.pick([]string{"$a", "$b", "$c", "x", "ab c"}) + `" ` + fmt.Sprint(w.r.IntN(50))
	case k < 45:
		return w.pick(wvars) + "=$(echo " + w.val() + "; echo z)"
	case k < 48:
		// output that ends in SEVERAL newlines: all of them are stripped
		switch w.r.IntN(5) {
		case 0:
			return w.pick(wvars) + "=$(echo " + w.val() + "; echo; echo); echo \"[$" + "a][$b][$c]\""
		case 1:
			return "echo \"[$(printf 'p\\n\\n\\n')]\" \"<$(echo q; echo)>\""
		case 2:
			return "c=$(printf '%s\\n\\n' " + w.val() + "); echo \"${#c}\""
		case 3:
			return "[[ $(printf 'x\\n\\n') == x ]] && echo same"
		default:
			return "for e in \"$(echo r; echo; echo)\" t; do echo \"<$e>\"; done"
		}
	case k < 52:
		// (command substitution of something that can fail is left out: known finding
		// errexit_inherited_by_command_substitution)
		return w.pick(wvars) + "=$(echo " + w.val() + ")"
	case k < 55:
		return "arr=(" + w.val() + " q " + w.val() + `); echo "${arr[1]}" "${#arr[@]}"`
	case k < 57:
		return `arr+=(` + w.val() + `); for e in "${arr[@]}"; do echo "<$e>"; done`
	case k < 59:
		return w.sparse()
	case k < 61:
		// an element unset inside a subshell / command substitution must not touch the parent's array
		switch w.r.IntN(3) {
		case 0:
			return `( unset 'arr[0]'; echo "${#arr[@]}" "${arr[@]}" ); echo "${arr[0]}" "${#arr[@]}" "${arr[@]}"`
		case 1:
			return `c=$(unset 'arr[0]'; echo "${arr[@]}"); echo "$c" "${arr[@]}"`
		default:
			return `arr=(p q r s); ( unset 'arr[1]'; arr+=(t); echo "${arr[@]}" ); echo "${arr[@]}"`
		}
	case k < 66:
		return `read -r a b <<< ` + w.pick([]string{`"p q r"`, `"$c"`, `one`}) + `; echo "$a|$b"`
	case k < 70:
		return "while read -r l; do echo \"[$l]\"; done <<EOF\nl1 $a\nl2\nEOF"
	case k < 74:
		return `echo "${a:-dflt}" "${b:+alt}" "${#c}" "${a%x}" "${c#f}"`
	case k < 78:
		return w.cond()
	case k < 82:
		if w.inLoop > 0 {
			return w.pick([]string{"break", "continue", "break 2", "continue 2", "break 1"})
		}
		return "false"
	case k < 86:
		if w.inFunc && w.inSub == 0 { // (return inside a subshell of a function: known finding core_AReturnOutside)
			return w.pick([]string{"return", "return 3", "return 0", `local a=` + w.val(), "local n=5 b"})
		}
		return ":"
	case k < 89:
		return w.pick([]string{"set -e", "set +e", "set -o pipefail", "set -u; echo \"${a:-}\"; set +u"})
	case k < 92:
		return "echo " + w.val() + " | { read -r l; echo \"got $l\"; }"
	case k < 94:
		return "{ echo p; false; } | ( while read -r l; do echo \"$l\"; done ); echo \"ps=$?\""
	case k < 96:
		return "exit " + fmt.Sprint(w.r.IntN(4))
	case k < 98:
		if w.nfunc > 0 {
			return fmt.Sprintf("f%d %s %s", 1+w.r.IntN(w.nfunc), w.val(), w.val())
		}
		return "echo $?"
	default:
		return "echo \"$?\" \"$#\""
	}
}

// sparse: an indexed array with holes (explicit indices, unset of elements that are not the last,
// appends after a hole), read with negative subscripts, written through a negative subscript and
// read back, listed with its indices.
func (w *wgen) sparse() string {
	var sb strings.Builder
	sb.WriteString("{ ") // one command, also as the operand of && ||
	switch w.r.IntN(3) {
	case 0:
		sb.WriteString("q=(1 2 3 4)")
	case 1:
		sb.WriteString("q=([0]=a [3]=b [7]=c)")
	default:
		sb.WriteString("q=(a b c d e)")
	}
	for n := 1 + w.r.IntN(3); n > 0; n-- {
		switch w.r.IntN(6) {
		case 0, 1:
			fmt.Fprintf(&sb, "; unset \"q[%d]\"", w.r.IntN(2)) // never the last element: the reads below stay in range
		case 2:
			sb.WriteString("; q+=(" + w.pick([]string{"5", "y z", "w"}) + ")")
		case 3:
			fmt.Fprintf(&sb, "; q[%d]=%s", 2+w.r.IntN(8), w.pick([]string{"m", "n", "9"}))
		case 4:
			fmt.Fprintf(&sb, "; q[-%d]=%s", 1+w.r.IntN(2), w.pick([]string{"W", "V"}))
		default:
			sb.WriteString("; unset \"q[-2]\"")
		}
	}
	sb.WriteString("; echo")
	for n := 2 + w.r.IntN(3); n > 0; n-- {
		fmt.Fprintf(&sb, " \"${q[-%d]}|\"", 1+w.r.IntN(3))
	}
	sb.WriteString(` "${#q[@]}" "${!q[@]}" "${q[@]}"; }`)
	return sb.String()
}

func (w *wgen) list(depth, max int) string {
	n := 1 + w.r.IntN(max)
	ss := make([]string, n)
	for i := range ss {
		ss[i] = w.stmt(depth)
	}
	return strings.Join(ss, "\n")
}

func (w *wgen) stmt(depth int) string {
	w.budget--
	if depth <= 0 || w.budget <= 0 {
		return w.simple()
	}
	switch k := w.r.IntN(100); {
	case k < 45:
		return w.simple()
	case k < 53:
		s := "if " + w.cond() + "; then\n" + w.list(depth-1, 2)
		if w.r.IntN(2) == 0 {
			s += "\nelif " + w.cond() + "; then\n" + w.list(depth-1, 1)
		}
		if w.r.IntN(2) == 0 {
			s += "\nelse\n" + w.list(depth-1, 2)
		}
		return s + "\nfi"
	case k < 61:
		w.inLoop++
		s := "for i in " + w.pick([]string{"1 2 3", `"$a" z`, "{1..3}", `"${arr[@]}"`, "x"}) + "; do\n" + w.list(depth-1, 3) + "\ndone"
		w.inLoop--
		return s
	case k < 67:
		w.inLoop++
		w.nloop++
		kv := fmt.Sprintf("k%d", w.nloop)
		s := kv + "=0; while [ $" + kv + " -lt " + fmt.Sprint(1+w.r.IntN(3)) + " ]; do " + kv + "=$((" + kv + "+1))\n" + w.list(depth-1, 3) + "\ndone"
		w.inLoop--
		return s
	case k < 71:
		// C-style for loops, with a last body command that succeeds (a failing one is the known finding
		// cstyle_for_stops_after_failing_body); the loop variable is printed afterwards
		w.inLoop++
		w.nloop++
		jv := fmt.Sprintf("j%d", w.nloop)
		s := "for ((" + jv + "=0; " + jv + "<" + fmt.Sprint(2+w.r.IntN(4)) + "; " + jv + "++)); do\n"
		if w.r.IntN(2) == 0 {
			s += "((" + jv + "==" + fmt.Sprint(w.r.IntN(4)) + ")) && " + w.pick([]string{"break", "continue", "break 1"}) + "\n"
		}
		s += w.list(depth-1, 2) + "\n:\ndone; echo \"" + jv + "=$" + jv + "\""
		w.inLoop--
		return s
	case k < 77:
		return "case " + w.val() + " in\n  x*|7) " + w.stmtLine(depth-1) + ";;\n  [0-9]*) " + w.stmtLine(depth-1) + ";;\n  *) " + w.stmtLine(depth-1) + ";;\nesac"
	case k < 83:
		save := w.inLoop
		w.inLoop = 0
		w.inSub++
		s := "(\n" + w.list(depth-1, 3) + "\n)"
		w.inSub--
		w.inLoop = save
		return s
	case k < 88:
		return "{\n" + w.list(depth-1, 3) + "\n}"
	case k < 94:
		return w.cond() + w.pick([]string{" && ", " || "}) + w.simpleNoNL()
	default:
		return "! " + w.cond()
	}
}

func (w *wgen) simpleNoNL() string {
	for {
		s := w.simple()
		if !strings.Contains(s, "\n") {
			return s
		}
	}
}

func (w *wgen) stmtLine(depth int) string {
	return w.simpleNoNL()
}

// compoundErr: every kind of compound command ending in a failing && || list (or ! cmd), under errexit
// and/or an ERR trap; no `exit` in these programs (known finding err_trap_fires_on_exit_builtin).
func (w *wgen) compoundErr() string {
	var sb strings.Builder
	errTrap := true
	switch w.r.IntN(3) {
	case 0:
		sb.WriteString("set -e\n")
		errTrap = false
	case 1:
		sb.WriteString("trap 'echo err' ERR\n")
	default:
		sb.WriteString("set -e\ntrap 'echo err' ERR\n")
	}
	tails := []string{"false && true", "true && false || false", "! true", "[[ a == b ]] && echo no", "(( 0 )) && :"}
	kinds := []string{
		"case x in\n  y) echo no;;\n  x|*) %s;;\nesac",
		"if true; then\n%s\nfi",
		"if false; then :; else\n%s\nfi",
		"for i in a b; do\n%s\ndone",
		"k=0; while [ $k -lt 2 ]; do k=$((k+1))\n%s\ndone",
		"k=0; until [ $k -ge 1 ]; do k=$((k+1))\n%s\ndone",
		"{\n%s\n}",
		"for ((j=0; j<2; j++)); do\n%s\n:\ndone",
	}
	n := 2 + w.r.IntN(3)
	first := w.r.IntN(len(kinds))
	body := ""
	for i := 0; i < n; i++ {
		k := (first + i*3) % len(kinds)
		body += fmt.Sprintf(kinds[k], w.pick(tails)) + fmt.Sprintf("\necho here%d $?\n", k)
	}
	// (with an ERR trap the body stays at top level: known finding err_trap_inherited_by_functions)
	if !errTrap && w.r.IntN(3) == 0 {
		sb.WriteString("f() {\n" + body + "}\nf\n")
	} else {
		sb.WriteString(body)
	}
	sb.WriteString("echo end $?\n")
	return sb.String()
}

func (w *wgen) program() string {
	if w.r.IntN(8) == 0 {
		return w.compoundErr()
	}
	w.budget = 10 + w.r.IntN(25)
	var sb strings.Builder
	if w.r.IntN(3) == 0 {
		sb.WriteString("set -e\n")
	}
	if w.r.IntN(6) == 0 {
		sb.WriteString("trap 'echo bye $?' EXIT\n")
	}
	// (ERR traps are left out: known finding err_trap_fires_on_exit_builtin)
	sb.WriteString("a=x; b=; c=foo; n=2; arr=(u v)\n")
	nf := w.r.IntN(3)
	for i := 1; i <= nf; i++ {
		w.inFunc = true
		save := w.inLoop
		w.inLoop = 0
		fmt.Fprintf(&sb, "f%d() {\n%s\n}\n", i, w.list(2, 3))
		w.inLoop = save
		w.inFunc = false
		w.nfunc = i // a function may only call earlier ones: no recursion
	}
	sb.WriteString(w.list(3, 5))
	sb.WriteString("\n")
	return sb.String()
}
