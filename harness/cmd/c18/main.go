// c18: QuoteMeta / HasMeta observations and the direct property test:
// QuoteMeta(s) has no metacharacters and matches s and nothing else; a pattern
// without metacharacters matches at most one string, itself with escapes removed.
// "Matches" is decided by the real matchers: pattern.Regexp+regexp (EntireString)
// and the interpreter's matcher (EntireString|ExtendedOperators).
package main

import (
	"strings"

	"mvdan.cc/sh/v3/pattern"
	"verifharness/hx"
	"verifharness/hxpat"
)

const (
	ES  = pattern.EntireString
	EXT = pattern.ExtendedOperators
)

type row struct {
	S      []int    `json:"s"`     // runes of the string / pattern
	Q      []int    `json:"q"`     // runes of QuoteMeta(s)
	HasQ   bool     `json:"hasq"`  // HasMeta(QuoteMeta(s))
	HasS   bool     `json:"hass"`  // HasMeta(s)
	Hex    string   `json:"hex"`   // s, hex
	QHex   string   `json:"qhex"`  // QuoteMeta(s), hex
	Strs   []string `json:"strs"`  // test strings, hex (first is "")
	Fails  []string `json:"fails"` // failing clauses "clause@config"
	Class  string   `json:"class"`
	Detail string   `json:"detail,omitempty"`
}

func unescape(p string) string {
	var sb strings.Builder
	rs := []rune(p)
	for i := 0; i < len(rs); i++ {
		if rs[i] == '\\' && i+1 < len(rs) {
			i++
		}
		sb.WriteRune(rs[i])
	}
	return sb.String()
}

// hasExtGroup: an extended operator directly followed by '(' somewhere (the mechanism of the known finding)
func hasExtOpener(s string) bool {
	for i := 0; i+1 < len(s); i++ {
		if strings.ContainsRune("!?*+@", rune(s[i])) && s[i+1] == '(' {
			return true
		}
	}
	return false
}

func observe(s string) row {
	var q string
	var hq, hs bool
	r := row{S: hxpat.Runes(s), Hex: hx.Hex(s)}
	if p, msg := hx.Try(func() { q = pattern.QuoteMeta(s, 0); hq = pattern.HasMeta(q, 0); hs = pattern.HasMeta(s, 0) }); p {
		r.Fails = append(r.Fails, "panic")
		r.Detail = msg
		return r
	}
	r.Q, r.QHex, r.HasQ, r.HasS = hxpat.Runes(q), hx.Hex(q), hq, hs
	strs := hxpat.Strings(s, 3, 4, false)
	strs = append(strs, s, unescape(s))
	r.Strs = hx.HexList(strs)
	if hq {
		r.Fails = append(r.Fails, "quotemeta_has_meta")
	}
	for _, cfg := range []string{"noext", "ext"} {
		var res hxpat.Res
		if cfg == "ext" {
			res = hxpat.ViaMatcher(q, ES|EXT, strs)
		} else {
			res = hxpat.ViaRegexp(q, ES, strs)
		}
		for i, t := range strs {
			want := byte('0')
			if t == s {
				want = '1'
			}
			if res.Bits[i] != want {
				r.Fails = append(r.Fails, "quotemeta_matches_only_self@"+cfg)
				r.Detail = "t=" + t + " got=" + string(res.Bits[i]) + " err=" + res.Err
				if cfg == "ext" && hasExtOpener(s) {
					r.Class = "quotemeta_hasmeta_ignore_extended_operators"
				}
				break
			}
		}
		if hs {
			continue
		}
		// s as a pattern without metacharacters: at most one string, unescape(s)
		if cfg == "ext" {
			res = hxpat.ViaMatcher(s, ES|EXT, strs)
		} else {
			res = hxpat.ViaRegexp(s, ES, strs)
		}
		for i, t := range strs {
			if res.Bits[i] != '0' && t != unescape(s) {
				r.Fails = append(r.Fails, "hasmeta_false_single@"+cfg)
				r.Detail = "t=" + t + " got=" + string(res.Bits[i]) + " err=" + res.Err
				if cfg == "ext" && hasExtOpener(s) {
					r.Class = "quotemeta_hasmeta_ignore_extended_operators"
				}
				break
			}
		}
	}
	return r
}

func main() {
	o := hx.ParseArgs()
	defer hx.Flush()
	switch o.Mode {
	case "meta":
		// every string of length <= 2, the (seed mod 8)-th eighth of length 3 (thorough: all of length <= 4),
		// and a pinned list of token strings with classes, groups and multi-byte runes
		max := 3
		if o.Tier == "thorough" {
			max = 4
		}
		for l := 0; l <= max; l++ {
			np := hxpat.NumPatterns(l)
			for i := 0; i < np; i++ {
				if l == 3 && o.Tier != "thorough" && uint64(i%8) != o.Seed%8 {
					continue
				}
				hx.Emit(observe(hxpat.Pattern(l, i)))
			}
		}
		// every ASCII rune (and a few multi-byte) alone, doubled and embedded between letters
		for _, c := range hxpat.SweepRunes() {
			for _, s := range []string{string(c), string(c) + string(c), "a" + string(c) + "b", string(c) + "a", "\\" + string(c)} {
				hx.Emit(observe(s))
			}
		}
		r := hx.Rand(18, 18)
		for i := 0; i < o.N; i++ {
			p := hxpat.GenTokens(r, 5)
			if o.Tier != "thorough" && uint64(i%8) != o.Seed%8 {
				continue
			}
			hx.Emit(observe(p))
		}
	case "list":
		for _, s := range o.Args {
			hx.Emit(observe(s))
		}
	}
}
