// c28: "the interpreter never panics".
//
// Nothing under test runs in this process: every case is executed by a worker
// subprocess (same binary, `worker` subcommand, one JSON request per line on
// stdin, one JSON response per line on stdout) under a per-case watchdog. A Go
// panic in a goroutine of the interpreter kills the worker; the parent records
// that as the observation of the case (crash + stderr tail) and restarts it.
//
// Safety of the programs: the ExecHandler refuses every external command with
// status 127 (except the in-process pseudo command __obs), the OpenHandler only
// opens paths below the per-case scratch directory (and a fake /dev/null),
// interp.Dir is the scratch directory, Env is a fixed small list, every Run has a
// 2 s context timeout, and programs mentioning kill, exec, /dev/, $$ or PPID are
// not run at all.
//
// modes:
//   code     code leg: generated histories of the modelled builtins; emits the
//            calls and the Go observation (panic / exit status / __obs vectors)
//   search   builtins x argument vectors, template-generated programs in all
//            variants, corpus of interp_test.go literals + mutations,
//            interp.New options / interp.Params arguments
//   witness  re-run the recorded witnesses (-in FILE with {"src":..,"lang":..} lines)
//   worker   (internal)
package main

import (
	"bufio"
	"bytes"
	"context"
	"encoding/json"
	"fmt"
	"go/ast"
	goparser "go/parser"
	"go/token"
	"io"
	"math/rand/v2"
	"os"
	"os/exec"
	"path/filepath"
	"runtime/debug"
	"strconv"
	"strings"
	"sync"
	"syscall"
	"time"

	"mvdan.cc/sh/v3/expand"
	"mvdan.cc/sh/v3/interp"
	"mvdan.cc/sh/v3/syntax"
	"verifharness/hx"
)

// ---------------------------------------------------------------- protocol

type request struct {
	Kind   string   `json:"kind"` // "run" | "new"
	Lang   string   `json:"lang"`
	Src    string   `json:"src"`    // hex
	Stdin  string   `json:"stdin"`  // hex
	Params []string `json:"params"` // hex; nil = no interp.Params option
	Opts   []string `json:"opts"`   // for kind "new": option names
}

type response struct {
	ParseErr bool       `json:"parse_err"`
	Panic    bool       `json:"panic"`
	Msg      string     `json:"msg"`   // panic value
	Where    string     `json:"where"` // first frames of mvdan.cc/sh in the stack
	Exit     int        `json:"exit"`
	Err      string     `json:"err"`
	Timeout  bool       `json:"timeout"` // context deadline reached
	Obs      [][]string `json:"obs"`     // hex vectors of the __obs calls
	Tmp      string     `json:"tmp"`
	Crash    bool       `json:"crash"` // worker died (set by the parent)
	Hang     bool       `json:"hang"`  // watchdog fired (set by the parent)
	Stderr   string     `json:"stderr"`
}

// ---------------------------------------------------------------- worker

type capBuf struct {
	mu  sync.Mutex
	buf bytes.Buffer
}

func (c *capBuf) Write(p []byte) (int, error) {
	c.mu.Lock()
	defer c.mu.Unlock()
	if c.buf.Len() < 1<<20 {
		c.buf.Write(p)
	}
	return len(p), nil
}

func (c *capBuf) take() string {
	c.mu.Lock()
	defer c.mu.Unlock()
	s := c.buf.String()
	c.buf.Reset()
	return s
}

type devNull struct{}

func (devNull) Read([]byte) (int, error)    { return 0, io.EOF }
func (devNull) Write(p []byte) (int, error) { return len(p), nil }
func (devNull) Close() error                { return nil }

func langOf(s string) syntax.LangVariant {
	switch s {
	case "posix":
		return syntax.LangPOSIX
	case "mksh":
		return syntax.LangMirBSDKorn
	case "bats":
		return syntax.LangBats
	case "zsh":
		return syntax.LangZsh
	}
	return syntax.LangBash
}

func shFrames(stack string) string {
	var out []string
	for _, l := range strings.Split(stack, "\n") {
		l = strings.TrimSpace(l)
		if strings.HasPrefix(l, "mvdan.cc/sh/v3/") {
			if i := strings.LastIndex(l, "("); i > 0 {
				l = l[:i]
			}
			out = append(out, strings.TrimPrefix(l, "mvdan.cc/sh/v3/"))
			if len(out) == 3 {
				break
			}
		}
	}
	return strings.Join(out, " < ")
}

func workerRun(base string, n int, req request) (resp response) {
	tmp := filepath.Join(base, "c"+strconv.Itoa(n))
	os.MkdirAll(filepath.Join(tmp, "d1", "d1"), 0o755)
	os.MkdirAll(filepath.Join(tmp, "d2"), 0o755)
	defer os.RemoveAll(tmp)
	resp.Tmp = tmp
	defer func() {
		if r := recover(); r != nil {
			resp.Panic = true
			resp.Msg = fmt.Sprint(r)
			resp.Where = shFrames(string(debug.Stack()))
		}
	}()
	if req.Kind == "new" {
		return workerNew(tmp, req, resp)
	}
	src := hx.UnHex(req.Src)
	p := syntax.NewParser(syntax.Variant(langOf(req.Lang)))
	f, err := p.Parse(strings.NewReader(src), "")
	if err != nil {
		resp.ParseErr = true
		return resp
	}
	stdinPath := filepath.Join(tmp, ".stdin")
	os.WriteFile(stdinPath, []byte(hx.UnHex(req.Stdin)), 0o644)
	in, _ := os.Open(stdinPath)
	defer in.Close()
	var out capBuf
	var obsMu sync.Mutex
	var obs [][]string
	refuse := func(next interp.ExecHandlerFunc) interp.ExecHandlerFunc {
		return func(ctx context.Context, args []string) error {
			if len(args) > 0 && args[0] == "__obs" {
				o := out.take()
				obsMu.Lock()
				obs = append(obs, hx.HexList(append([]string{o}, args[1:]...)))
				obsMu.Unlock()
				return nil
			}
			return interp.ExitStatus(127)
		}
	}
	open := func(ctx context.Context, path string, flag int, perm os.FileMode) (io.ReadWriteCloser, error) {
		if path == "/dev/null" {
			return devNull{}, nil
		}
		if path != "" && !filepath.IsAbs(path) {
			path = filepath.Join(interp.HandlerCtx(ctx).Dir, path)
		}
		path = filepath.Clean(path)
		if !strings.HasPrefix(path, tmp+string(filepath.Separator)) {
			return nil, &os.PathError{Op: "open", Path: path, Err: os.ErrPermission}
		}
		return os.OpenFile(path, flag, perm)
	}
	opts := []interp.RunnerOption{
		interp.StdIO(in, &out, io.Discard),
		interp.Env(expand.ListEnviron("HOME="+tmp, "TMPDIR="+tmp, "PATH="+filepath.Join(tmp, "bin"), "LANG=C")),
		interp.Dir(tmp),
		interp.ExecHandlers(refuse),
		interp.OpenHandler(open),
	}
	if req.Params != nil {
		ps := make([]string, len(req.Params))
		for i, x := range req.Params {
			ps[i] = hx.UnHex(x)
		}
		opts = append(opts, interp.Params(ps...))
	}
	r, err := interp.New(opts...)
	if err != nil {
		resp.Err = "new: " + err.Error()
		return resp
	}
	ctx, cancel := context.WithTimeout(context.Background(), 2*time.Second)
	defer cancel()
	err = r.Run(ctx, f)
	if err != nil {
		resp.Err = err.Error()
		var es interp.ExitStatus
		if e, ok := err.(interp.ExitStatus); ok {
			es = e
			resp.Exit = int(es)
		} else {
			resp.Exit = -1
		}
	}
	if ctx.Err() != nil {
		resp.Timeout = true
	}
	obsMu.Lock()
	resp.Obs = obs
	obsMu.Unlock()
	return resp
}

// interp.New with combinations of options, and interp.Params with odd arguments
func workerNew(tmp string, req request, resp response) response {
	var opts []interp.RunnerOption
	for _, o := range req.Opts {
		switch o {
		case "stdio":
			opts = append(opts, interp.StdIO(nil, &bytes.Buffer{}, &bytes.Buffer{}))
		case "stdio_nil":
			opts = append(opts, interp.StdIO(nil, nil, nil))
		case "stdio_reader":
			opts = append(opts, interp.StdIO(strings.NewReader("x\n"), io.Discard, io.Discard))
		case "env_nil":
			opts = append(opts, interp.Env(nil))
		case "env_list":
			opts = append(opts, interp.Env(expand.ListEnviron("A=1", "B", "=x", "A=2")))
		case "env_func":
			opts = append(opts, interp.Env(expand.FuncEnviron(func(string) string { return "" })))
		case "dir":
			opts = append(opts, interp.Dir(tmp))
		case "dir_empty":
			opts = append(opts, interp.Dir(""))
		case "dir_missing":
			opts = append(opts, interp.Dir(filepath.Join(tmp, "nosuch")))
		case "dir_file":
			p := filepath.Join(tmp, "f")
			os.WriteFile(p, nil, 0o644)
			opts = append(opts, interp.Dir(p))
		case "interactive":
			opts = append(opts, interp.Interactive(true))
		case "exec_nil":
			opts = append(opts, interp.ExecHandlers())
		case "exec_mw":
			opts = append(opts, interp.ExecHandlers(func(next interp.ExecHandlerFunc) interp.ExecHandlerFunc {
				return func(ctx context.Context, args []string) error { return interp.ExitStatus(127) }
			}))
		case "call":
			opts = append(opts, interp.CallHandler(func(ctx context.Context, args []string) ([]string, error) { return args, nil }))
		case "call_nil":
			opts = append(opts, interp.CallHandler(nil))
		case "open_nil":
			opts = append(opts, interp.OpenHandler(nil))
		case "stat_nil":
			opts = append(opts, interp.StatHandler(nil))
		case "readdir_nil":
			opts = append(opts, interp.ReadDirHandler2(nil))
		case "params":
			ps := make([]string, len(req.Params))
			for i, x := range req.Params {
				ps[i] = hx.UnHex(x)
			}
			opts = append(opts, interp.Params(ps...))
		case "params_none":
			opts = append(opts, interp.Params())
		}
	}
	r, err := interp.New(opts...)
	if err != nil {
		resp.Err = "new: " + err.Error()
		return resp
	}
	// a trivial builtin-only program, so that Reset and Run see the options too
	src := hx.UnHex(req.Src)
	if src == "" {
		return resp
	}
	f, err := syntax.NewParser().Parse(strings.NewReader(src), "")
	if err != nil {
		resp.ParseErr = true
		return resp
	}
	ctx, cancel := context.WithTimeout(context.Background(), 2*time.Second)
	defer cancel()
	if err := r.Run(ctx, f); err != nil {
		resp.Err = err.Error()
	}
	return resp
}

func workerMain() {
	// a runaway recursion should die quickly rather than eat 1 GB of stack
	debug.SetMaxStack(256 << 20)
	var lim syscall.Rlimit
	lim.Cur, lim.Max = 6<<30, 6<<30
	syscall.Setrlimit(syscall.RLIMIT_AS, &lim)
	// the parent creates (and, also after killing this process, removes) the scratch directory
	base := os.Getenv("C28_WORKER_DIR")
	if base == "" {
		base, _ = os.MkdirTemp("", "c28w")
		defer os.RemoveAll(base)
	}
	in := bufio.NewReaderSize(os.Stdin, 1<<20)
	out := bufio.NewWriter(os.Stdout)
	for n := 0; ; n++ {
		line, err := in.ReadBytes('\n')
		if len(line) > 1 {
			var req request
			if json.Unmarshal(line, &req) == nil {
				fmt.Fprintf(os.Stderr, "@@case %d\n", n)
				resp := workerRun(base, n, req)
				b, _ := json.Marshal(resp)
				out.Write(b)
				out.WriteByte('\n')
				out.Flush()
			}
		}
		if err != nil {
			break
		}
	}
}

// ---------------------------------------------------------------- parent side of the protocol

type worker struct {
	dir    string
	cmd    *exec.Cmd
	in     io.WriteCloser
	out    *bufio.Reader
	stderr *capBuf
}

func startWorker() *worker {
	cmd := exec.Command(os.Args[0], "worker")
	cmd.SysProcAttr = &syscall.SysProcAttr{Setpgid: true}
	dir, _ := os.MkdirTemp("", "c28w")
	cmd.Env = append(os.Environ(), "GOTRACEBACK=all", "C28_WORKER_DIR="+dir)
	in, _ := cmd.StdinPipe()
	outp, _ := cmd.StdoutPipe()
	w := &worker{dir: dir, cmd: cmd, in: in, out: bufio.NewReaderSize(outp, 1<<20), stderr: &capBuf{}}
	cmd.Stderr = w.stderr
	if err := cmd.Start(); err != nil {
		panic(err)
	}
	return w
}

func (w *worker) kill() {
	if w.cmd.Process != nil {
		syscall.Kill(-w.cmd.Process.Pid, syscall.SIGKILL)
		w.cmd.Process.Kill()
	}
	w.cmd.Wait()
	os.RemoveAll(w.dir)
}

type pool struct {
	w        *worker
	watchdog time.Duration
}

// do runs one request; a crash or hang becomes the observation and the worker is restarted
func (p *pool) do(req request) response {
	if p.w == nil {
		p.w = startWorker()
	}
	w := p.w
	b, _ := json.Marshal(req)
	w.stderr.take()
	type res struct {
		line []byte
		err  error
	}
	ch := make(chan res, 1)
	go func() {
		if _, err := w.in.Write(append(b, '\n')); err != nil {
			ch <- res{nil, err}
			return
		}
		line, err := w.out.ReadBytes('\n')
		ch <- res{line, err}
	}()
	select {
	case r := <-ch:
		var resp response
		if r.err == nil && json.Unmarshal(r.line, &resp) == nil {
			return resp
		}
		// worker died
		w.cmd.Wait()
		time.Sleep(20 * time.Millisecond)
		st := w.stderr.take()
		p.w = nil
		w.kill()
		resp = response{Crash: true, Stderr: tailStr(st, 3000)}
		resp.Msg, resp.Where = crashInfo(st)
		return resp
	case <-time.After(p.watchdog):
		st := w.stderr.take()
		p.w = nil
		w.kill()
		return response{Hang: true, Stderr: tailStr(st, 500)}
	}
}

func (p *pool) close() {
	if p.w != nil {
		p.w.in.Close()
		done := make(chan struct{})
		go func() { p.w.cmd.Wait(); close(done) }()
		select {
		case <-done:
		case <-time.After(3 * time.Second):
			p.w.kill()
		}
		os.RemoveAll(p.w.dir)
		p.w = nil
	}
}

func tailStr(s string, n int) string {
	if len(s) > n {
		return s[len(s)-n:]
	}
	return s
}

func crashInfo(stderr string) (msg, where string) {
	for _, l := range strings.Split(stderr, "\n") {
		if strings.HasPrefix(l, "panic: ") || strings.HasPrefix(l, "fatal error: ") {
			msg = l
			break
		}
	}
	if i := strings.Index(stderr, msg); msg != "" && i >= 0 {
		where = shFrames(stderr[i:])
	}
	return msg, where
}

// resource exhaustion is not a verdict about panics
func isResource(r response) bool {
	return r.Crash && (strings.Contains(r.Msg, "out of memory") || strings.Contains(r.Msg, "cannot allocate") ||
		r.Msg == "" /* killed without a Go panic message */)
}

// ---------------------------------------------------------------- shell text helpers

func sq(s string) string { return "'" + strings.ReplaceAll(s, "'", `'\''`) + "'" }

func sqAll(l []string) string {
	out := make([]string, len(l))
	for i, s := range l {
		out[i] = sq(s)
	}
	return strings.Join(out, " ")
}

func unsafeProgram(src string) bool {
	s := strings.ReplaceAll(src, "/dev/null", "")
	if (strings.Contains(s, "<(") || strings.Contains(s, ">(")) && strings.Contains(s, "wait") {
		return true // `: <(echo hi); wait` never returns (C31's finding); a hang says nothing about panics
	}
	for _, bad := range []string{"kill", "exec", "/dev/", "$$", "PPID", "ulimit", "${$", "$BASHPID"} {
		if strings.Contains(s, bad) {
			return true
		}
	}
	return false
}

// ---------------------------------------------------------------- code leg: histories of the modelled builtins

type call struct {
	K    string   `json:"k"`
	Args []string `json:"args,omitempty"` // hex
	Name string   `json:"name,omitempty"` // hex (assign/unset)
	Val  string   `json:"val,omitempty"`  // hex
	Cont bool     `json:"cont,omitempty"`
	Code int      `json:"code,omitempty"`
	args []string
}

const obsLine = `__obs "$?" "$-" "${OPTIND+S}${OPTIND-U}" "${OPTARG+S}${OPTARG-U}" "${x+S}${x-U}" "${y+S}${y-U}" "${PWD+S}${PWD-U}" "$!" "$@"`

func (c call) render() string {
	a := sqAll(c.args)
	switch c.K {
	case "set":
		return "set " + a
	case "shift":
		return "shift " + a
	case "getopts":
		return "getopts " + a
	case "assign":
		return hx.UnHex(c.Name) + "=" + sq(hx.UnHex(c.Val))
	case "unsetvar":
		return "unset -v " + hx.UnHex(c.Name)
	case "pushd":
		return "pushd " + a
	case "popd":
		return "popd " + a
	case "dirs":
		return "dirs " + a
	case "wait":
		return "wait " + a
	case "bg":
		return "(exit " + strconv.Itoa(c.Code) + ") &"
	case "break":
		if c.Cont {
			return "continue " + a
		}
		return "break " + a
	case "return":
		return "return " + a
	case "loop":
		w := "break"
		if c.Cont {
			w = "continue"
		}
		return `for i in 1 2; do for j in 1 2; do __obs A "$?"; ` + w + " " + a + `; __obs B "$?"; done; __obs C "$?"; done`
	case "func":
		return `f() { return ` + a + `; __obs B "$?"; }; f`
	case "exit":
		return "exit " + a
	case "echo":
		return "echo " + a
	case "pwd":
		return "pwd " + a
	case "unset":
		return "unset " + a
	}
	panic("bad call " + c.K)
}

var nums = []string{"0", "1", "2", "3", "-1", "-2", "-0", "+1", "+0", "5", "10", "255", "256", "257", "-255", "-256",
	"99999999999999999999", "-99999999999999999999", "9223372036854775807", "9223372036854775808", "-9223372036854775808",
	"-9223372036854775809", "2147483648", "4294967296", "", " 1", "1 ", "1x", "x", "0x10", "1e3", "1_0", "--1", "+-1", "+", "-", "00", "007", "1.5"}

func genNum(r *rand.Rand) string {
	if r.IntN(3) == 0 {
		return strconv.Itoa(r.IntN(6))
	}
	return hx.Pick(r, nums)
}

func genWord(r *rand.Rand) string {
	return hx.Pick(r, []string{"a", "b", "c", "-a", "-b", "-ab", "-abc", "-ba", "-c", "-cx", "-cxy", "--", "-", "+", "+a", "-:", "-?", "x", "y",
		"", "--a", "-a-", "-xyz", "arg", "a b", "-a b", "-bcval", "-é"[:2], "zz"})
}

func asciiOnly(s string) string {
	b := []byte(s)
	for i := range b {
		if b[i] >= 0x80 || b[i] < 0x20 {
			b[i] = '~'
		}
	}
	return string(b)
}

func genWords(r *rand.Rand, max int) []string {
	n := r.IntN(max + 1)
	out := make([]string, n)
	for i := range out {
		out[i] = asciiOnly(genWord(r))
	}
	return out
}

func genCall(r *rand.Rand) call {
	mk := func(k string, args ...string) call { return call{K: k, args: args, Args: hx.HexList(args)} }
	switch r.IntN(26) {
	case 0, 1, 2:
		// set: parameters, with or without --, flags, -o forms
		var a []string
		switch r.IntN(8) {
		case 0:
			a = append([]string{"--"}, genWords(r, 4)...)
		case 1:
			a = genWords(r, 4)
		case 2:
			a = []string{hx.Pick(r, []string{"-o", "+o", "-a", "+a", "-f", "-x", "+x", "-af", "-z", "-ao", "-oa", "-", "+", "-o-", "- ", "+ ", "-fxo"})}
			if r.IntN(2) == 0 {
				a = append(a, hx.Pick(r, []string{"pipefail", "noglob", "allexport", "nosuch", "", "xtrace", "--", "-"}))
			}
			a = append(a, genWords(r, 2)...)
		case 3:
			a = []string{"-o", hx.Pick(r, []string{"pipefail", "noglob", "allexport", "xtrace", "nosuch"}), "--"}
			a = append(a, genWords(r, 3)...)
		case 4:
			a = []string{hx.Pick(r, []string{"-", "+"})}
			a = append(a, genWords(r, 3)...)
		default:
			a = append([]string{"--"}, genWords(r, 5)...)
		}
		for _, s := range a {
			// errexit/noexec/nounset change the control flow of the observation program; search covers them
			if strings.HasPrefix(s, "-") && !strings.HasPrefix(s, "--") && strings.ContainsAny(s, "enu") {
				return mk("set", "--", "a", "-b")
			}
			if s == "errexit" || s == "noexec" || s == "nounset" {
				return mk("set", "--")
			}
		}
		return mk("set", a...)
	case 3, 4:
		switch r.IntN(5) {
		case 0:
			return mk("shift")
		case 1:
			return mk("shift", genNum(r), genNum(r))
		default:
			return mk("shift", genNum(r))
		}
	case 5, 6, 7, 8, 9:
		optstr := hx.Pick(r, []string{"ab", "abc:", ":ab", "a:b", ":a:b:", "", ":", "a", "c:", "ab:c", "a-", "?a", "::"})
		name := hx.Pick(r, []string{"x", "x", "x", "y", "OPTIND", "OPTARG", "1x", "", "x y"})
		a := []string{optstr, name}
		switch r.IntN(6) {
		case 0:
			return mk("getopts", a[:r.IntN(2)]...)
		case 1, 2:
			a = append(a, genWords(r, 4)...)
		}
		return mk("getopts", a...)
	case 10:
		n := hx.Pick(r, []string{"OPTIND", "OPTIND", "OPTIND", "OPTARG", "x"})
		v := genNum(r)
		return call{K: "assign", Name: hx.Hex(n), Val: hx.Hex(v)}
	case 11:
		if r.IntN(3) == 0 {
			return call{K: "unsetvar", Name: hx.Hex(hx.Pick(r, []string{"OPTIND", "OPTARG", "x"}))}
		}
		return call{K: "bg", Code: r.IntN(4)}
	case 12, 13:
		var a []string
		if r.IntN(2) == 0 {
			a = append(a, "-n")
		}
		switch r.IntN(4) {
		case 0:
		case 1:
			a = append(a, hx.Pick(r, []string{"d1", "d2", "zz", "", "d1/d1"}), hx.Pick(r, []string{"d1", "x"}))
		default:
			a = append(a, hx.Pick(r, []string{"d1", "d2", "zz", "", "d1/d1", "-n", "+1", "-1", "+0"}))
		}
		return mk("pushd", a...)
	case 14, 15:
		var a []string
		if r.IntN(2) == 0 {
			a = append(a, "-n")
		}
		if r.IntN(4) == 0 {
			a = append(a, hx.Pick(r, []string{"+0", "-0", "+1", "-1", "+5", "x", "-n", ""}))
		}
		return mk("popd", a...)
	case 16:
		return mk("dirs", genWords(r, 1)...)
	case 17:
		var a []string
		for i, n := 0, r.IntN(3); i < n; i++ {
			a = append(a, hx.Pick(r, []string{"g1", "g2", "g0", "g-1", "g3", "g", "1", "", "g 1", "g1 ", "g99999999999999999999", "g-99999999999999999999",
				"--", "-n", "-p", "-x", "+x", "-", "g+1", "g01", "gg1", "g1x"}))
		}
		return mk("wait", a...)
	case 18:
		c := mk(hx.Pick(r, []string{"break", "return", "exit"}))
		var a []string
		for i, n := 0, r.IntN(3); i < n; i++ {
			a = append(a, genNum(r))
		}
		c.args, c.Args = a, hx.HexList(a)
		if c.K == "break" {
			c.Cont = r.IntN(2) == 0
		}
		if c.K == "exit" && r.IntN(3) > 0 {
			// mostly failing exits, so that the history continues
			c.args = []string{"1", "2"}
			c.Args = hx.HexList(c.args)
		}
		return c
	case 22, 23:
		// echo: option loop, words without backslashes (echo -e goes through expand.Format)
		var a []string
		for i, n := 0, r.IntN(4); i < n; i++ {
			a = append(a, hx.Pick(r, []string{"-n", "-e", "-E", "-n", "-x", "-ne", "--", "-", "", "-nE", "-en", "-nx", "-eEn", "-n-", "-nn", "-xe"}))
		}
		a = append(a, genWords(r, 3)...)
		return mk("echo", a...)
	case 24:
		var a []string
		for i, n := 0, r.IntN(3); i < n; i++ {
			a = append(a, hx.Pick(r, []string{"-L", "-P", "-L", "-P", "-X", "", "x", "-LP", "--"}))
		}
		return mk("pwd", a...)
	case 25:
		var a []string
		for i, n := 0, r.IntN(3); i < n; i++ {
			a = append(a, hx.Pick(r, []string{"-v", "-f", "-v", "-x"}))
		}
		for i, n := 0, r.IntN(3); i < n; i++ {
			a = append(a, hx.Pick(r, []string{"x", "y", "OPTIND", "OPTARG", "x[0]", "x[1]", "y[0]", "OPTIND[0]", "x[", "x]", "[0]", "1x", "1x[0]", "nosuch", "nosuch[0]", "", "x[]", "x[0]]", "-v", "-f", "a b"}))
		}
		return mk("unset", a...)
	case 19, 20:
		var a []string
		switch r.IntN(6) {
		case 0:
		case 1:
			a = []string{genNum(r), genNum(r)}
		default:
			a = []string{genNum(r)}
		}
		c := mk("loop", a...)
		c.Cont = r.IntN(2) == 0
		return c
	default:
		var a []string
		switch r.IntN(6) {
		case 0:
		case 1:
			a = []string{genNum(r), genNum(r)}
		default:
			a = []string{genNum(r)}
		}
		return mk("func", a...)
	}
}

// argument strings of the code leg are printable ASCII (the model's concrete
// instances of []rune / IndexRune / TrimSpace are the ASCII ones)
func codeLeg(o hx.Opts) {
	r := hx.Rand(o.Seed, 28)
	p := &pool{watchdog: 20 * time.Second}
	defer p.close()
	for i := 0; i < o.N; i++ {
		n := 2 + r.IntN(7)
		var calls []call
		var sb strings.Builder
		for j := 0; j < n; j++ {
			c := genCall(r)
			for k := range c.args {
				c.args[k] = asciiOnly(c.args[k])
			}
			c.Args = hx.HexList(c.args)
			calls = append(calls, c)
			sb.WriteString(c.render())
			sb.WriteString("\n")
			if c.K != "loop" || true {
				sb.WriteString(obsLine + "\n")
			}
		}
		src := sb.String()
		resp := p.do(request{Kind: "run", Lang: "bash", Src: hx.Hex(src)})
		if resp.Hang {
			// never a verdict by itself: once more with a 10x budget
			p.watchdog = 100 * time.Second
			resp = p.do(request{Kind: "run", Lang: "bash", Src: hx.Hex(src)})
			p.watchdog = 20 * time.Second
		}
		hx.Emit(map[string]any{"calls": calls, "src": hx.Hex(src), "tmp": hx.Hex(resp.Tmp),
			"panic": resp.Panic || (resp.Crash && !isResource(resp)), "msg": resp.Msg, "where": resp.Where,
			"exit": resp.Exit, "obs": resp.Obs, "hang": resp.Hang, "parse_err": resp.ParseErr, "timeout": resp.Timeout,
			"crash": resp.Crash, "stderr": tailStr(resp.Stderr, 300)})
	}
}


// ---------------------------------------------------------------- code leg 2: expansion indexing
// ${v:o:l}, ${@:o:l}, ${a[@]:o:l} on dense and sparse arrays, $N, unset 'a[k]'

type expCase struct {
	V      string   `json:"v"`      // hex
	Params []string `json:"params"` // hex
	Arr    []string `json:"arr"`    // hex
	Unsets []int64  `json:"unsets"`
	Off    int64    `json:"off"`
	HasLen bool     `json:"has_len"`
	Len    int64    `json:"len"`
	Digit  int      `json:"digit"`
}

var offs = []int64{0, 1, 2, 3, 4, 5, 7, -1, -2, -3, -4, -5, -7, 99, -99, 9223372036854775807, -9223372036854775807, 2147483648, -2147483648}

func genExp(r *rand.Rand) (expCase, string) {
	word := func() string {
		return hx.Pick(r, []string{"a", "bc", "", "d e", "xyz", "-n", "0", "q"})
	}
	var c expCase
	v := hx.Pick(r, []string{"", "a", "abc", "hello world", "0123456789", "x y"})
	c.V = hx.Hex(v)
	var ps, arr []string
	for i, n := 0, r.IntN(5); i < n; i++ {
		ps = append(ps, word())
	}
	for i, n := 0, r.IntN(6); i < n; i++ {
		arr = append(arr, word())
	}
	c.Params, c.Arr = hx.HexList(ps), hx.HexList(arr)
	for i, n := 0, r.IntN(4); i < n; i++ {
		c.Unsets = append(c.Unsets, hx.Pick(r, []int64{0, 1, 2, 3, 4, 5, -1, -2, -3, -6, 9, -9, 9223372036854775807, -9223372036854775807}))
	}
	c.Off = hx.Pick(r, offs)
	if r.IntN(4) > 0 {
		c.HasLen = true
		c.Len = hx.Pick(r, offs)
	}
	c.Digit = 1 + r.IntN(9)
	sl := fmt.Sprintf(":(%d)", c.Off)
	if c.HasLen {
		sl += fmt.Sprintf(":(%d)", c.Len)
	}
	var sb strings.Builder
	fmt.Fprintf(&sb, "v=%s\nset -- %s\na=(%s)\n", sq(v), sqAll(ps), sqAll(arr))
	for _, k := range c.Unsets {
		fmt.Fprintf(&sb, "unset 'a[%d]'\n", k)
	}
	fmt.Fprintf(&sb, "__obs \"${a[@]}\"\n__obs \"${!a[@]}\"\n__obs \"${v%s}\"\n__obs \"${@%s}\"\n__obs \"${a[@]%s}\"\n__obs \"${%d+S}${%d-U}\"\n", sl, sl, sl, c.Digit, c.Digit)
	return c, sb.String()
}

func codeLeg2(o hx.Opts) {
	r := hx.Rand(o.Seed, 2828)
	p := &pool{watchdog: 20 * time.Second}
	defer p.close()
	for i := 0; i < o.N; i++ {
		c, src := genExp(r)
		resp := p.do(request{Kind: "run", Lang: "bash", Src: hx.Hex(src)})
		if resp.Hang {
			p.watchdog = 100 * time.Second
			resp = p.do(request{Kind: "run", Lang: "bash", Src: hx.Hex(src)})
			p.watchdog = 20 * time.Second
		}
		hx.Emit(map[string]any{"exp": c, "src": hx.Hex(src),
			"panic": resp.Panic || (resp.Crash && !isResource(resp)), "msg": resp.Msg, "where": resp.Where,
			"exit": resp.Exit, "obs": resp.Obs, "hang": resp.Hang, "parse_err": resp.ParseErr, "timeout": resp.Timeout, "crash": resp.Crash})
	}
}

// ---------------------------------------------------------------- search

var builtinNames = []string{":", "true", "false", "help", "times", "exit", "set", "shift", "unset", "echo", "printf", "break", "continue",
	"pwd", "cd", "wait", "builtin", "type", "hash", "eval", "source", ".", "[", "test", "command", "dirs", "pushd", "popd", "return",
	"read", "getopts", "shopt", "alias", "unalias", "trap", "readarray", "mapfile", "declare", "local", "export", "readonly", "typeset",
	"nameref", "let", "fc", "fg", "bg", "jobs", "umask", "bind", "caller", "compgen", "complete", "compopt", "disown", "enable", "history",
	"logout", "suspend", "newgrp"}

var oddArgs = []string{"", " ", "-", "--", "+", "-n", "-p", "-a", "-r", "-s", "-t", "-d", "-v", "-f", "-o", "+o", "-e", "-E", "-L", "-P", "-A", "-x", "-u", "-q", "-l",
	"-abc", "-nx", "-\xc3\xa9", "\xff", "-\xff", "+\xff", "-o-", "-op", "-pv", "-vp", "--help", "-t-t",
	"a", "x", "y", "arr", "m", "f", "nosuch", "1x", "a b", "a=b", "a=", "=", "=b", "a+=b", "arr[1]", "arr[-1]", "arr[-9]", "arr[99999999999999999999]", "arr[", "arr]", "[", "]", "[]",
	"arr[@]", "arr[*]", "m[k]", "m[]", "x[0]", "x[1]", "[x]", "arr[1+]", "arr[1/0]", "arr[$(", "arr[x=1]", "a[b[c]]", "r", "OPTIND", "IFS", "PWD", "HOME", "UID", "EUID", "RANDOM", "@", "*", "#", "?", "!", "0", "1",
	"%d", "%s", "%c", "%x", "%q", "%b", "%", "%%", "%*d", "%.*s", "%1$s", "%-5", "%05d", "%.d", "%ld", "%5", "%*", "%.", "%+ #0-5.3d", "\\x", "\\0777", "\\c", "\\u", "\\U1234567890", "\\xZZ", "\\", "\\e[",
	"g1", "g0", "g-1", "g99999999999999999999", "g", "%1", "EXIT", "ERR", "INT", "0", "-1", "99", "SIGINT",
	"(", ")", "!", "-a", "-o", "=~", "==", "!=", "-eq", "-lt", "-nt", "-ef", "<", ">", "-z", "-n", "-e", "-d", "-v", "-R", "-O", "-G", "-N", "-t", "-k", "-u", "-S",
	"emulate", "extglob", "nullglob", "globstar", "expand_aliases", "pipefail", "errexit", "noexec", "posix", "nosuchopt",
	"echo hi", "f", "for", "if", "((", "$(", "`", "'", "\"", "x=1", "break", "return 3", "exit 3", "f() { return 1; }", "{", "}", ";", "&", "|", "#!",
	".", "..", "/", "d1", "d2", "nosuch/x", "~", "~nosuch", "-0", "+0", "+1", "-1", "+99", "-99", "+x", ".stdin", "*", "?", "[a-", "**",
}

func genOddArg(r *rand.Rand) string {
	switch r.IntN(6) {
	case 0:
		return genNum(r)
	case 1:
		// random bytes
		n := r.IntN(4)
		b := make([]byte, n)
		for i := range b {
			b[i] = byte(hx.Pick(r, []int{0x2d, 0x2b, 0x5b, 0x5d, 0x25, 0x5c, 0x3a, 0x61, 0x31, 0x80, 0xff, 0xc3, 0x20, 0x3d, 0x0a, 0x2a}))
		}
		return string(b)
	default:
		return hx.Pick(r, oddArgs)
	}
}

var preludes = []string{
	"",
	"set -- a b c",
	"set -- -ab -c val rest",
	"arr=(1 2 3); declare -A m; m[k]=v; x=5; r=x",
	"arr=(1 2 3); unset 'arr[1]'; declare -n r=x; x=1",
	"f() { return 3; }; alias f=true; shopt -s expand_aliases",
	"readonly x=1; declare -r arr=(1 2)",
	"set -u",
	"set -e",
	"trap 'echo bye' EXIT; trap 'echo err' ERR",
	"OPTIND=3; set -- -a -b -c",
	"pushd -n zz >/dev/null; pushd -n yy >/dev/null",
	"(exit 3) & :",
	"IFS=; set -f",
	"x=; declare -n r=x",
	"declare -i x=5; declare -u y=abc; declare -x z",
}

// contexts a builtin call is placed in
var contexts = []string{
	"%s",
	"for i in 1 2; do %s; done",
	"f() { %s; }; f a b",
	"while true; do %s; break; done",
	"( %s )",
	"{ %s; } >/dev/null",
	"x=$( %s )",
	"%s | %s",
	"eval %s",
	"if %s; then :; fi",
	"! %s",
	"%s && %s || %s",
	"f() { for i in 1; do %s; done; }; f",
	"echo in | { %s; }",
	"%s <<< 'a b c'",
	"builtin %s",
	"command %s",
}

func genBuiltinProgram(r *rand.Rand, name string) string {
	var sb strings.Builder
	sb.WriteString(hx.Pick(r, preludes))
	sb.WriteString("\n")
	ncalls := 1 + r.IntN(4)
	for c := 0; c < ncalls; c++ {
		n := r.IntN(5)
		if r.IntN(10) == 0 {
			n = 6 + r.IntN(6)
		}
		args := make([]string, n)
		for i := range args {
			args[i] = genOddArg(r)
		}
		cmd := sq(name) + " " + sqAll(args)
		if name != "[" && r.IntN(8) == 0 {
			cmd = name + " " + sqAll(args) // unquoted name: keyword forms (declare, let, export ...)
		}
		if name == "[" && r.IntN(2) == 0 {
			cmd += " ]"
		}
		ctx := hx.Pick(r, contexts)
		if r.IntN(2) == 0 {
			ctx = "%s"
		}
		sb.WriteString(strings.ReplaceAll(ctx, "%s", cmd))
		sb.WriteString("\n")
		if r.IntN(3) == 0 {
			sb.WriteString(hx.Pick(r, []string{"set -- -a", "set --", "shift", "OPTIND=1", "OPTIND=", "unset OPTIND", "set -- -abc -d", "unset arr", "arr=()", "x=", "cd d1", "popd -n"}) + "\n")
		}
	}
	return sb.String()
}

// template-generated programs (all variants), including constructs the interpreter does not implement
var wordPool = []string{"a", "$x", "\"$x\"", "${x}", "${x:-d}", "${x:=d}", "${x:?}", "${x:+a}", "${#x}", "${x#a}", "${x%%b*}", "${x/a/b}", "${x//a}", "${x/#a/b}", "${x/%a/b}",
	"${x^}", "${x^^}", "${x,}", "${x,,}", "${x@Q}", "${x@E}", "${x@P}", "${x@A}", "${x@a}", "${x@U}", "${x@u}", "${x@L}", "${x@K}", "${x@k}", "${!x}", "${!x@}", "${!x*}", "${!arr[@]}", "${!arr[*]}",
	"${x:1}", "${x:1:2}", "${x: -1}", "${x: -9:2}", "${x:1:-9}", "${x:99}", "${x:0:99}", "${x:-1:-1}", "${x::}", "${x:$((1/0))}", "${x:9223372036854775807}", "${x: -9223372036854775808}",
	"${@:1:2}", "${@:0}", "${@: -1}", "${@: -9:2}", "${@:1:-1}", "${@:99}", "${*:0:99}", "${@:9223372036854775807}", "${@: -9223372036854775808:1}",
	"${arr[@]:1:2}", "${arr[@]: -1}", "${arr[@]: -9:2}", "${arr[@]:1:-9}", "${arr[*]:99}", "${arr[@]:0:99}", "${sp[@]:2:1}", "${sp[@]: -1}", "${sp[@]: -99}", "${sp[@]:99:1}", "${sp[@]:0:-1}",
	"${arr[1]}", "${arr[-1]}", "${arr[-9]}", "${arr[99]}", "${arr[1+1]}", "${arr[x]}", "${arr[$x]}", "${arr[1/0]}", "${m[k]}", "${m[@]}", "${#arr[@]}", "${#arr}", "${#m[@]}", "${arr[@]/1/2}", "${arr[@]#1}", "${arr[@]^^}",
	"${10}", "${99}", "$1", "$9", "$0", "$#", "$?", "$-", "$!", "$@", "$*", "\"$@\"", "\"$*\"", "$_", "$RANDOM", "$LINENO", "$SECONDS", "$UID", "$DIRSTACK", "${DIRSTACK[1]}", "${BASH_VERSION}", "${FUNCNAME[0]}", "${PIPESTATUS[0]}", "${BASH_REMATCH[1]}",
	"$(echo a)", "`echo a`", "$(f)", "$(exit 3)", "$(<.stdin)", "$(< nosuch)", "$((1+2))", "$((x))", "$((x++))", "$((1/0))", "$((1%0))", "$((2**-1))", "$((1<<64))", "$((1<<-1))", "$((-9223372036854775808/-1))", "$((-9223372036854775808%-1))",
	"$((arr[1]))", "$((arr[-9]))", "$((x=))", "$((1?2:3))", "$((a=b=c))", "$((08))", "$((0x))", "$((2#2))", "$((65#1))", "$((1#1))", "$((x[0]))", "$((m[k]++))", "$((++x--))", "$((1,2))", "$((!x))", "$((~x))", "$((x**99))", "$[1+1]",
	"{a,b}", "{1..3}", "{1..10..2}", "{a..e}", "{1..3..0}", "{3..1..-1}", "{1..9223372036854775807..9223372036854775806}", "{-9223372036854775808..-9223372036854775807}", "{a..1}", "{01..3}", "{a,b}{c,d}", "{,}", "{a}", "{..}",
	"~", "~/x", "~root", "~nosuch", "~+", "~-", "*", "?", "[a-z]*", "**", "d*/d*", "*/", ".*", "[!a]", "[", "[]", "[[:alpha:]]", "[[:nosuch:]]", "@(a|b)", "!(a)", "+(a)", "?(a)", "*(a)", "@(", "\\*", "'*'",
	"$'a\\tb'", "$'\\x41'", "$'\\u00e9'", "$'\\777'", "$'\\c'", "$\"a\"", "\"a $(echo \"b\") c\"", "a\\ b", "''", "\"\"", "$u", "\"$u\"", "${u[@]}", "\"${u[@]}\"", "<(echo a)"[:0] + "x",
}

var stmtTemplates = []string{
	"echo W", "echo W W W", "x=W", "x+=W", "arr=(W W)", "arr+=(W)", "arr[1]=W", "arr[-1]=W", "arr[-9]=W", "arr[9999999]=W", "arr[1/0]=W", "m[W]=W", "m[]=W", "declare -A m=([a]=W [b]=W)", "declare -A m; m=(W W W)",
	"sp=(1 2 3 4); unset 'sp[1]'; echo W", "local x=W", "f() { local x=W; echo W; }; f W W", "f() { echo \"$@\"; shift; f2() { echo W; }; f2; }; f W",
	"if [[ W == W ]]; then echo W; fi", "if [ W = W ]; then echo W; else echo W; fi", "[[ W =~ W ]]; echo ${BASH_REMATCH[0]}", "[[ W =~ ( ]]", "[[ W -eq W ]]", "[[ -v W ]]", "[[ -v arr[1] ]]", "[[ -R W ]]", "[[ W -nt W ]]", "[[ -t W ]]", "[[ W < W && W > W || ! W ]]",
	"test W -eq W", "test -v W", "[ W -a W ]", "[ W", "[ ( W ) ]", "test ! W", "test W -o", "test -t W",
	"case W in W) echo a;; W|W) echo b;& *) echo c;;& esac", "case W in [) echo a;; esac",
	"for i in W W; do echo $i; done", "for ((i=0; i<3; i++)); do echo W; done", "for ((;;)); do break; done", "for ((i=0; i<W; i++)); do break W; done", "for i; do echo $i; done",
	"while [[ W ]]; do break; done", "until false; do continue 2; done", "while :; do while :; do break 2; done; done", "i=0; while ((i++ < 3)); do echo W; done",
	"select i in W W; do echo $i; break; done", "select i; do break; done", "coproc W", "coproc x { echo W; }", "time echo W", "time -p echo W", "time", "! W", "! echo W | cat",
	"echo W | read x; echo $x", "echo W | while read a b; do echo $b; done", "read x <<< W; echo $x", "read -a arr <<< W", "read -r -p W x <<< W", "mapfile arr <<< W", "mapfile -t -d W arr <<< W", "read -n W x <<< abc", "read -d W x <<< abc", "read -t W x <<< abc",
	"cat <<EOF\nW\nEOF", "cat <<-'EOF'\n\tW\n\tEOF", "echo W > f1; echo W >> f1; read x < f1", "echo W >&2", "echo W 2>&1 >/dev/null", "echo W >&W", "echo W <&W", "echo W >| f1", "echo W &> f1", "echo W &>> f1", "echo W <> f1", "echo W {fd}> f1", "echo W 3> f1 >&3", "echo W >&-", "echo W <&-", "echo W > ''", "echo W > W",
	"(echo W; exit 3); echo $?", "{ echo W; }", "{ echo W; } | { read x; echo $x; }", "echo W & wait", "echo W & wait $!", "(exit 2) & wait g1; echo $?", "echo W |& cat", "echo W | echo W | echo W", "set -o pipefail; false | true",
	"let W", "let x=W y=W", "((W))", "((x=W))", "((x++))", "((arr[W]++))", "((m[W]=1))", "((x=1/0))", "((x%=0))", "((x<<=99))", "declare -i n=W; n+=W; echo $n",
	"declare -n r=x; r=W; echo $r", "declare -n r=W; echo $r", "declare -n r=arr[1]; echo $r", "declare -n r=r", "declare -n r=q; declare -n q=r; echo $r", "declare -p x arr m", "declare -f f", "declare -F", "declare -l x=W", "declare -u x=W", "declare -x x=W", "declare -r x=W; x=W", "declare -a x=W", "declare -A x=W", "declare -g x=W", "declare -t x", "declare +x x", "declare -", "declare -ZZ", "typeset -i x=W", "export x=W y", "export -n x", "export -p", "export -f f", "readonly x=W; unset x", "readonly -p", "readonly -a arr", "local W", "nameref r=W",
	"unset x arr m f", "unset -f f", "unset -v x", "unset -n r", "unset 'arr[W]'", "unset 'm[W]'", "unset 'x[0]'", "unset 'x[1]'", "unset W",
	"set -- W W W; shift W; echo $#", "set -- W; getopts W x; echo $x $OPTIND $OPTARG", "set -- W W; while getopts W o; do echo $o; set -- W; done", "getopts W x W W; getopts W x W", "OPTIND=W; getopts W x W",
	"set W", "set -o W", "set +o W", "shopt -s W", "shopt -u W", "shopt W", "shopt -o W", "shopt -p", "shopt -q W",
	"trap W EXIT", "trap W ERR; false", "trap - EXIT", "trap W W", "trap", "trap -p", "trap -l", "trap 'exit 3' EXIT; exit W", "trap 'return 3' EXIT", "trap 'break' ERR; false",
	"type W", "type -t W", "type -p W", "type -a W", "command -v W", "command W", "command -p W", "builtin W", "builtin W W", "hash W", "hash -r", "help W", "times", "umask", "umask W", "fc", "jobs", "fg", "bg", "disown", "caller", "caller W", "enable W", "history", "bind W", "compgen -W W", "complete W", "logout", "suspend", "newgrp",
	"eval W", "eval 'echo W'", "eval 'f() { W; }'; f", "eval ')'", "eval 'x=('", "eval 'return W'", "eval 'break W'", "source W", ". W", "source f1 W W", "echo 'echo W; return W' > f1; source f1; echo $?", "echo 'set -- W' > f1; . ./f1 W; echo $#", "echo 'shift W' > f1; . ./f1 a", "echo '. ./f1' > f1; . ./f1",
	"alias W", "alias a=W; a", "shopt -s expand_aliases; alias a='echo W'; a x", "shopt -s expand_aliases; alias a='for'; a", "alias a='a b'; alias b='a'; shopt -s expand_aliases\na", "unalias W", "unalias -a", "alias -p",
	"cd W", "cd W W", "cd; pwd", "cd -; pwd -P", "cd d1; cd ..; pwd -L", "pwd W", "pushd W", "pushd -n W; popd", "pushd d1; pushd d2; popd; popd; popd", "popd W", "popd -n W", "dirs W", "dirs -c", "dirs -v", "pushd +1", "popd +0", "popd -0", "DIRSTACK=(); popd", "unset DIRSTACK; dirs",
	"printf W", "printf W W W", "printf -v x W W; echo $x", "printf -v 'arr[1]' W", "printf -v W W", "printf '%s %d %c %x %q %b\\n' W W W W W W", "printf '%*d' W W", "printf '%.*s' W W", "printf '%5$s'", "printf '%(%Y)T' W", "printf '%(' W", "printf %s", "echo -e W", "echo -n W", "echo -neE W", "echo -e '\\c'",
	"wait W", "wait -n", "wait -p x", "wait -f W", "return W", "f() { return W; }; f; echo $?", "exit W", "(exit W); echo $?", "break W", "continue W", "f() { break W; }; for i in 1 2; do f; done", "f() { exit W; }; (f)",
	"function f { echo W; }; f", "function f() (echo W); f", "f() { f2() { f3() { echo W; }; f3; }; f2; }; f", "f() { unset -f f; }; f; f", "f() { f() { echo W; }; }; f; f", "f() if true; then echo W; fi; f", "f() for i in W; do echo $i; done; f", "f() [[ W ]]; f", "f() ((W)); f",
	"x=W f", "x=W; x=W echo $x", "x=W eval 'echo $x'", "x=W :", "readonly x; x=W :", "x=(W) f", "IFS=W read a b <<< W", "IFS=W; echo $*; echo \"$*\"", "IFS=; set -- W W; echo \"$*\"", "unset IFS; echo $*",
	"echo W; false; echo $?", "set -e; false; echo W", "set -u; echo $nosuch", "set -u; echo ${arr[9]}", "set -u; echo $1", "set -u; echo ${@:5}", "set -n; echo W", "set -x; echo W", "set -a; x=W", "set -f; echo *", "set -C; echo W > f1; echo W > f1",
	"shopt -s nullglob; echo nosuch*", "shopt -s globstar; echo **", "shopt -s dotglob; echo *", "shopt -s extglob; echo @(d1|d2)", "shopt -s nocaseglob; echo D*", "shopt -s failglob; echo nosuch*", "shopt -s nocasematch; [[ A == a ]]",
	"echo W; echo W W", "W", "W W", "W=W W", "\"W\"", "$(W)", "`W`", "echo $(echo $(echo W))", "echo \"$(echo \"$(echo W)\")\"", "x=$(f; exit W); echo $?",
	"@test W { echo W; }", "echo =W", "echo W(N)", "echo ${(U)x}", "echo ${x:u}", "echo $x[1]", "echo ${#:-W}", "echo <(echo W)"[:0] + ":",
}

func fill(r *rand.Rand, t string) string {
	var sb strings.Builder
	for i := 0; i < len(t); i++ {
		if t[i] == 'W' && (i == 0 || !isAlnum(t[i-1])) && (i+1 == len(t) || !isAlnum(t[i+1])) {
			switch r.IntN(8) {
			case 0:
				sb.WriteString(sq(genOddArg(r)))
			case 1:
				sb.WriteString(genNum(r))
				if sb.Len() == 0 {
					sb.WriteString("''")
				}
			default:
				sb.WriteString(hx.Pick(r, wordPool))
			}
			continue
		}
		sb.WriteByte(t[i])
	}
	return sb.String()
}

func isAlnum(b byte) bool {
	return b >= 'a' && b <= 'z' || b >= 'A' && b <= 'Z' || b >= '0' && b <= '9' || b == '_'
}

var langs = []string{"bash", "posix", "mksh", "bats", "zsh"}

func genTemplateProgram(r *rand.Rand) string {
	var sb strings.Builder
	if r.IntN(3) > 0 {
		sb.WriteString("x=abc; arr=(1 2 3); sp=(1 2 3 4); unset 'sp[1]'; declare -A m; m[k]=v; set -- p q r; f() { echo f \"$@\"; }\n")
	}
	n := 1 + r.IntN(4)
	for i := 0; i < n; i++ {
		s := fill(r, hx.Pick(r, stmtTemplates))
		if r.IntN(5) == 0 {
			s = strings.ReplaceAll(hx.Pick(r, contexts), "%s", s)
		}
		sb.WriteString(s)
		sb.WriteString("\n")
	}
	return sb.String()
}


// the fixed enumeration of parameter expansions: every subject x every operator x argument forms that are
// PRESENT in the source but expand to the empty string (unset variable, "", $(true), ...) or to something,
// unquoted and inside double quotes. The seed only selects which slice the quick tier runs.
const paramPrelude = "x=abcabc; e=; unset u; set -- ab bc ''; arr=(ab '' bc); sp=(a b c d); unset 'sp[1]'; declare -A m=([k]=ab [j]=); n=2\n"

func paramOpPrograms() []string {
	subjects := []string{"x", "e", "u", "@", "*", "arr[@]", "arr[*]", "arr[1]", "arr[9]", "sp[@]", "m[@]", "m[k]", "1", "3", "9", "#", "?", "u[@]", "x[0]"}
	args := []string{"$u", "\"\"", "''", "$e", "\"$e\"", "$(true)", "${u}", "${u:-}", "`true`", "${arr[1]}", "$9", "${e}$u",
		"a", "$x", "\"*\"", "*", "?", "#", "%", "\\#", "b*", "[a-c]", "$n", "#a", "%c", "#$u", "%\"\""}
	args2 := []string{"y", "$u", "\"\"", "$x", ""}
	one := []string{"#", "##", "%", "%%", "^", "^^", ",", ",,", ":", ":-", "-", ":=", "=", ":+", "+", ":?", "?", "/", "//", "/#", "/%"}
	two := []string{"/", "//", "/#", "/%", ":"}
	var exps []string
	for _, sub := range subjects {
		for _, a := range args {
			for _, op := range one {
				exps = append(exps, "${"+sub+op+a+"}")
			}
			for _, op := range two {
				sep := "/"
				if op == ":" {
					sep = ":"
				}
				for _, b := range args2 {
					exps = append(exps, "${"+sub+op+a+sep+b+"}")
				}
			}
		}
		// operators without an argument, and a missing pattern
		for _, t := range []string{"/", "//", "/#", "/%", "#", "%", ":", "::", ":0:", "^", ",", "@Q", "@A", "@a", "@E", "@P", "@U", "@K"} {
			exps = append(exps, "${"+sub+t+"}")
		}
	}
	// keep the forms that parse (parsing only; a parser panic here is C06's business, not a verdict of this search)
	parses := func(e string) (ok bool) {
		defer func() {
			if recover() != nil {
				ok = false
			}
		}()
		_, err := syntax.NewParser().Parse(strings.NewReader("echo "+e+" \""+e+"\"; [[ "+e+" == \""+e+"\" ]]"), "")
		return err == nil
	}
	kept := exps[:0]
	for _, e := range exps {
		if parses(e) {
			kept = append(kept, e)
		}
	}
	exps = kept
	var out []string
	for i := 0; i+4 <= len(exps); i += 4 {
		var sb strings.Builder
		sb.WriteString(paramPrelude)
		for k, e := range exps[i : i+4] {
			// each in its own subshell: ${x:?...} on an unset subject exits the shell
			switch (i/4 + k) % 4 {
			case 0:
				sb.WriteString("( echo " + e + " )\n")
			case 1:
				sb.WriteString("( echo \"" + e + "\" )\n")
			case 2:
				sb.WriteString("( for w in " + e + " \"" + e + "\"; do echo \"$w\"; done )\n")
			default:
				sb.WriteString("( y=" + e + "; z=\"pre${e}" + e + "post\"; [[ " + e + " == \"" + e + "\" ]] )\n")
			}
		}
		out = append(out, sb.String())
	}
	return out
}

// program literals of interp/interp_test.go, extracted as data
func corpus(repo string) []string {
	fset := token.NewFileSet()
	seen := map[string]bool{}
	var out []string
	for _, name := range []string{"interp/interp_test.go", "interp/handler_test.go", "interp/example_test.go"} {
		f, err := goparser.ParseFile(fset, filepath.Join(repo, name), nil, 0)
		if err != nil {
			continue
		}
		ast.Inspect(f, func(n ast.Node) bool {
			lit, ok := n.(*ast.BasicLit)
			if !ok || lit.Kind != token.STRING {
				return true
			}
			s, err := strconv.Unquote(lit.Value)
			if err != nil || len(s) < 2 || len(s) > 2000 || seen[s] {
				return true
			}
			seen[s] = true
			out = append(out, s)
			return true
		})
	}
	return out
}

var mutNums = []string{"-1", "0", "99999999999999999999", "-99999999999999999999", "''", "9223372036854775807", "-9223372036854775808", "256", "x", "-0", "1 2"}

// the fixed enumeration of mutations of one corpus program; the seed only selects a slice of it
func mutations(src string) []string {
	var out []string
	// every decimal number token replaced by each odd number
	for i := 0; i < len(src); i++ {
		if src[i] >= '0' && src[i] <= '9' && (i == 0 || !isAlnum(src[i-1])) {
			j := i
			for j < len(src) && src[j] >= '0' && src[j] <= '9' {
				j++
			}
			if j == len(src) || !isAlnum(src[j]) {
				for _, m := range mutNums {
					out = append(out, src[:i]+m+src[j:])
				}
			}
			i = j
		}
	}
	// drop one word / duplicate one word
	words := strings.Fields(src)
	if len(words) > 1 && len(words) <= 40 && !strings.Contains(src, "\n") {
		for i := range words {
			w := append(append([]string{}, words[:i]...), words[i+1:]...)
			out = append(out, strings.Join(w, " "))
			d := append(append(append([]string{}, words[:i+1]...), words[i]), words[i+1:]...)
			out = append(out, strings.Join(d, " "))
			e := append([]string{}, words...)
			e[i] = "''"
			out = append(out, strings.Join(e, " "))
		}
	}
	// context changes
	out = append(out, "set -- -ab -c; "+src+"; shift -1; getopts ab x", "set -u; "+src, "set -e; "+src, "f() { "+src+"\n}; f; f a b",
		"for i in 1 2; do "+src+"\ndone", "( "+src+"\n)", "x=$( "+src+"\n)", "eval "+sq(src), "set -n; "+src, "IFS=; "+src, "trap "+sq(src)+" EXIT", src+"\n"+src)
	return out
}

type finding struct {
	Stream string `json:"stream"`
	Lang   string `json:"lang"`
	Src    string `json:"src"` // hex
	Text   string `json:"text"`
	Msg    string `json:"msg"`
	Where  string `json:"where"`
	Class  string `json:"class"`
	Crash  bool   `json:"crash"`
	Opts   []string `json:"opts,omitempty"`
	Params []string `json:"params,omitempty"`
}

// known-finding classes: decided by the failure signature (panic value + innermost
// frames of mvdan.cc/sh) together with a predicate on the program text
func classify(src string, resp response) string {
	return ""
}

type stats struct {
	Cases, Run, ParseErr, Unsafe, Timeout, Hang, Resource, Panics int
}

func search(o hx.Opts) {
	repo := os.Getenv("VERIF_REPO")
	if repo == "" {
		repo = "/repo"
	}
	thorough := o.Tier == "thorough"
	type job struct {
		stream, lang, src string
		req               *request
	}
	var jobs []job
	// (a) every builtin x random argument vectors
	r := hx.Rand(o.Seed, 2801)
	per := 8
	if thorough {
		per = 150
	}
	for _, name := range builtinNames {
		for i := 0; i < per; i++ {
			jobs = append(jobs, job{stream: "builtin:" + name, lang: hx.Pick(r, []string{"bash", "bash", "bash", "posix", "mksh"}), src: genBuiltinProgram(r, name)})
		}
	}
	// (b) template programs in all variants
	r = hx.Rand(o.Seed, 2802)
	nt := 400
	if thorough {
		nt = 12000
	}
	for i := 0; i < nt; i++ {
		jobs = append(jobs, job{stream: "template", lang: langs[i%len(langs)], src: genTemplateProgram(r)})
	}
	// (c) corpus as is (bash + one rotating other variant), and a slice of the fixed mutation enumeration
	progs := corpus(repo)
	for i, s := range progs {
		if !thorough && (uint64(i)+o.Seed)%2 != 0 {
			continue // quick: a rotating half of the corpus; thorough: all of it in all variants
		}
		jobs = append(jobs, job{stream: "corpus", lang: "bash", src: s})
		if thorough {
			for _, l := range langs[1:] {
				jobs = append(jobs, job{stream: "corpus", lang: l, src: s})
			}
		} else if (uint64(i)/2+o.Seed)%4 == 0 {
			jobs = append(jobs, job{stream: "corpus", lang: langs[1+(uint64(i)/2+o.Seed)%4], src: s})
		}
	}
	nm := 0
	for i, s := range progs {
		ms := mutations(s)
		for k, m := range ms {
			if thorough || (uint64(i*131+k)+o.Seed)%97 == 0 {
				jobs = append(jobs, job{stream: "mutation", lang: "bash", src: m})
				nm++
			}
		}
	}
	// (c2) the fixed enumeration of parameter expansions with present-but-empty operator arguments
	pops := paramOpPrograms()
	for i, s := range pops {
		if thorough || (uint64(i)+o.Seed)%5 == 0 {
			l := "bash"
			if i%7 == 3 {
				l = "mksh"
			}
			jobs = append(jobs, job{stream: "paramop", lang: l, src: s})
		}
	}
	// (d) interp.New option combinations and interp.Params arguments
	r = hx.Rand(o.Seed, 2804)
	optNames := []string{"stdio", "stdio_nil", "stdio_reader", "env_nil", "env_list", "env_func", "dir", "dir_empty", "dir_missing", "dir_file", "interactive",
		"exec_nil", "exec_mw", "call", "call_nil", "params", "params_none"}
	nn := 200
	if thorough {
		nn = 4000
	}
	for i := 0; i < nn; i++ {
		var opts []string
		for k, n := 0, r.IntN(5); k < n; k++ {
			opts = append(opts, hx.Pick(r, optNames))
		}
		// Params first, last, or in the middle
		opts = append(opts, "params")
		if r.IntN(2) == 0 {
			opts[0], opts[len(opts)-1] = opts[len(opts)-1], opts[0]
		}
		var ps []string
		for k, n := 0, r.IntN(5); k < n; k++ {
			switch r.IntN(3) {
			case 0:
				ps = append(ps, hx.Pick(r, []string{"-o", "+o", "-", "+", "--", "-e", "-x", "-eo", "-oe", "-o pipefail", "pipefail", "nosuch", "", "-\xff", "+\xc3\xa9", "-z", "- ", "-oo", "+oo", "-o-", "-ao", "-"}))
			default:
				ps = append(ps, genOddArg(r))
			}
		}
		src := hx.Pick(r, []string{"", "echo $# \"$@\" $-", "set -o; shift 2; echo $1", "getopts ab x; echo $x"})
		for _, bad := range opts {
			// without an exec handler or with env_nil the program could reach the host: builtins only, fixed text
			_ = bad
		}
		jobs = append(jobs, job{stream: "new", req: &request{Kind: "new", Opts: opts, Params: hx.HexList(ps), Src: hx.Hex(src)}})
	}

	// run: 4 workers in parallel, results in job order
	results := make([]response, len(jobs))
	skipped := make([]bool, len(jobs))
	var wg sync.WaitGroup
	nw := 6
	next := make(chan int, len(jobs))
	for i := range jobs {
		next <- i
	}
	close(next)
	for w := 0; w < nw; w++ {
		wg.Add(1)
		go func() {
			defer wg.Done()
			p := &pool{watchdog: 6 * time.Second}
			defer p.close()
			for i := range next {
				j := jobs[i]
				var req request
				if j.req != nil {
					req = *j.req
				} else {
					if unsafeProgram(j.src) {
						skipped[i] = true
						continue
					}
					req = request{Kind: "run", Lang: j.lang, Src: hx.Hex(j.src), Stdin: hx.Hex("l1 a b\nl2\\\nc\n\n3\nlast")}
				}
				resp := p.do(req)
				if resp.Crash && isResource(resp) || resp.Hang {
					// once more alone with a larger budget before it is counted
					p.watchdog = 30 * time.Second
					resp2 := p.do(req)
					p.watchdog = 6 * time.Second
					if !resp2.Hang && !(resp2.Crash && isResource(resp2)) {
						resp = resp2
					}
				}
				results[i] = resp
			}
		}()
	}
	wg.Wait()
	st := map[string]*stats{}
	distinct := map[string]bool{}
	var samples, hangs []string
	for i, j := range jobs {
		key := strings.SplitN(j.stream, ":", 2)[0]
		s := st[key]
		if s == nil {
			s = &stats{}
			st[key] = s
		}
		s.Cases++
		if skipped[i] {
			s.Unsafe++
			continue
		}
		resp := results[i]
		switch {
		case resp.ParseErr:
			s.ParseErr++
			continue
		case resp.Hang:
			s.Hang++
			hangs = append(hangs, j.lang+": "+j.src)
			continue
		case resp.Crash && isResource(resp):
			s.Resource++
			continue
		}
		s.Run++
		if resp.Timeout {
			s.Timeout++
		}
		if j.req == nil {
			distinct[j.lang+"\x00"+j.src] = true
			if len(samples) < 6 && i%97 == 0 {
				samples = append(samples, j.lang+": "+j.src)
			}
		} else {
			distinct["new\x00"+strings.Join(j.req.Opts, ",")+"\x00"+strings.Join(j.req.Params, ",")] = true
		}
		if resp.Panic || resp.Crash {
			s.Panics++
			f := finding{Stream: j.stream, Lang: j.lang, Src: hx.Hex(j.src), Text: j.src, Msg: resp.Msg, Where: resp.Where, Crash: resp.Crash}
			if j.req != nil {
				f.Opts, f.Params, f.Src = j.req.Opts, j.req.Params, j.req.Src
				f.Text = "interp.New(" + strings.Join(j.req.Opts, ",") + ") params=" + fmt.Sprintf("%q", unhexAll(j.req.Params)) + " src=" + hx.UnHex(j.req.Src)
			}
			f.Class = classify(j.src, resp)
			hx.Emit(map[string]any{"finding": f})
		}
	}
	hx.Emit(map[string]any{"summary": st, "distinct": len(distinct), "samples": samples, "hangs": hangs, "corpus_programs": len(progs), "mutations_run": nm})
}

func unhexAll(l []string) []string {
	out := make([]string, len(l))
	for i, s := range l {
		out[i] = hx.UnHex(s)
	}
	return out
}

// witness: -in FILE, lines {"lang":..,"src":<text>} ; emits panic/no panic per line
func witness(o hx.Opts) {
	f, err := os.Open(o.In)
	if err != nil {
		panic(err)
	}
	defer f.Close()
	p := &pool{watchdog: 20 * time.Second}
	defer p.close()
	sc := bufio.NewScanner(f)
	sc.Buffer(make([]byte, 1<<20), 1<<20)
	for sc.Scan() {
		var w struct {
			ID, Lang, Src string
			Opts, Params  []string
		}
		if json.Unmarshal(sc.Bytes(), &w) != nil {
			continue
		}
		req := request{Kind: "run", Lang: w.Lang, Src: hx.Hex(w.Src)}
		if w.Opts != nil {
			req = request{Kind: "new", Opts: w.Opts, Params: hx.HexList(w.Params), Src: hx.Hex(w.Src)}
		}
		resp := p.do(req)
		hx.Emit(map[string]any{"id": w.ID, "src": w.Src, "panic": resp.Panic || (resp.Crash && !isResource(resp)), "msg": resp.Msg, "where": resp.Where,
			"exit": resp.Exit, "parse_err": resp.ParseErr, "hang": resp.Hang, "err": resp.Err})
	}
}

func main() {
	if len(os.Args) > 1 && os.Args[1] == "worker" {
		workerMain()
		return
	}
	o := hx.ParseArgs()
	defer hx.Flush()
	switch o.Mode {
	case "code":
		codeLeg(o)
	case "code2":
		codeLeg2(o)
	case "search":
		search(o)
	case "witness":
		witness(o)
	default:
		fmt.Fprintln(os.Stderr, "unknown mode", o.Mode)
		os.Exit(2)
	}
}
