// Package hxc06 holds what the syntax-level searches C06/C08/C11 share:
// the corpus (string literals of the repo's test tables, read AS DATA with
// go/parser), a grammar generator mixing constructs of every variant, byte-level
// mutation, random bytes, the variant list and option plumbing.
package hxc06

import (
	"go/ast"
	"go/parser"
	"go/token"
	"math/rand/v2"
	"os"
	"path/filepath"
	"sort"
	"strconv"
	"strings"

	"mvdan.cc/sh/v3/syntax"
)

var Langs = []syntax.LangVariant{syntax.LangBash, syntax.LangPOSIX, syntax.LangMirBSDKorn, syntax.LangBats, syntax.LangZsh}

func LangByName(s string) syntax.LangVariant {
	for _, l := range Langs {
		if l.String() == s {
			return l
		}
	}
	panic("unknown lang " + s)
}

// RepoDir is the source tree the harness was built against (VERIF_REPO or /repo).
func RepoDir() string {
	if d := os.Getenv("VERIF_REPO"); d != "" {
		return d
	}
	return "/repo"
}

// Corpus returns the sorted distinct string literals (1..maxLen bytes) of the
// syntax package's test tables.
func Corpus(maxLen int) []string {
	files := []string{"filetests_test.go", "printer_test.go", "parser_test.go"}
	seen := map[string]bool{}
	for _, f := range files {
		fset := token.NewFileSet()
		af, err := parser.ParseFile(fset, filepath.Join(RepoDir(), "syntax", f), nil, 0)
		if err != nil {
			// a tree whose test files do not parse still gets the pinned copy
			af, err = parser.ParseFile(fset, filepath.Join("/repo/syntax", f), nil, 0)
			if err != nil {
				panic(err)
			}
		}
		ast.Inspect(af, func(n ast.Node) bool {
			if bl, ok := n.(*ast.BasicLit); ok && bl.Kind == token.STRING {
				s, err := strconv.Unquote(bl.Value)
				if err == nil && len(s) > 0 && len(s) <= maxLen {
					seen[s] = true
				}
			}
			return true
		})
	}
	for _, s := range Pinned {
		seen[s] = true
	}
	out := make([]string, 0, len(seen))
	for s := range seen {
		out = append(out, s)
	}
	sort.Strings(out)
	return out
}

// Pinned inputs: witnesses of known findings and corner cases that must always be visited.
var Pinned = []string{
	"@test 'desc'", "@test", "@test a b", "@test 'x' { a; }", "foo @test", "a=b @test x", "! @test x", "{ @test x; }", "$(@test x)", "@test\\\n x", "coproc time @test\n", "case x in (", "case x in\n(", "case x in a) b ;; (", "coproc a @test b { c; }",
	"!", "/", "1 +", "(", "a=([i])",
	"echo `", "foo `bar \" ${", "cat <<EOF\n$(", "a <<E\nb", "((", "[[ a", "${", "$((", "'", "\"", "f() {", "if a; then", "case x in", "a |", "a &&",
}

// Slice returns the part of l the quick tier visits for this seed: items i with
// i % parts == seed % parts (parts <= 1: everything).
func Slice(l []string, seed uint64, parts int) []string {
	if parts <= 1 {
		return l
	}
	var out []string
	for i, s := range l {
		if uint64(i)%uint64(parts) == seed%uint64(parts) {
			out = append(out, s)
		}
	}
	return out
}

// Mutate applies 1..3 byte-level edits: overwrite, delete, insert a shell
// metacharacter, splice in another corpus program, duplicate a span, truncate.
func Mutate(r *rand.Rand, s string, pool []string) string {
	b := []byte(s)
	meta := []byte("\"'`$(){}[]<>|&;\\\n#!*?=+-~:/%^,@ \t\r\x00")
	k := 1 + r.IntN(3)
	for i := 0; i < k; i++ {
		if len(b) == 0 {
			b = append(b, meta[r.IntN(len(meta))])
			continue
		}
		switch r.IntN(8) {
		case 0:
			b[r.IntN(len(b))] = byte(r.IntN(256))
		case 1:
			j := r.IntN(len(b))
			b = append(b[:j:j], b[j+1:]...)
		case 2, 3:
			j := r.IntN(len(b) + 1)
			b = append(b[:j:j], append([]byte{meta[r.IntN(len(meta))]}, b[j:]...)...)
		case 4:
			j := r.IntN(len(b) + 1)
			o := pool[r.IntN(len(pool))]
			if len(o) > 200 {
				o = o[:200]
			}
			b = append(b[:j:j], append([]byte(o), b[j:]...)...)
		case 5:
			j := r.IntN(len(b))
			e := j + r.IntN(len(b)-j+1)
			span := append([]byte{}, b[j:e]...)
			b = append(b[:e:e], append(span, b[e:]...)...)
		case 6:
			b = b[:r.IntN(len(b)+1)]
		case 7:
			j := r.IntN(len(b))
			b[j] = meta[r.IntN(len(meta))]
		}
		if len(b) > 6000 {
			b = b[:6000]
		}
	}
	return string(b)
}

// RandomBytes: uniform bytes, shell-metacharacter soup, printable ASCII, keyword soup.
func RandomBytes(r *rand.Rand) string {
	n := r.IntN(80)
	if r.IntN(20) == 0 {
		n = 200 + r.IntN(2000)
	}
	var sb strings.Builder
	soup := "\"'`$(){}[]<>|&;\\\n#!*?=+-~:/%^,@ \tabAZ09_.\r\x00\xc3\xa9\xff"
	kw := []string{"if", "then", "else", "elif", "fi", "for", "in", "do", "done", "while", "until", "case", "esac", "{", "}", "[[", "]]", "((", "))", "function", "select", "let", "declare", "coproc", "time", "@test", "<<", "<<-", "EOF", "$((", "${", "$(", "<(", ">(", "&>", "|&", ";;", ";&", ";;&", "<<<", "!", "local", "export", "readonly", "typeset", "=(", "+=", "$'", "$\"", "@(", "!(", "?(", "*(", "+("}
	mode := r.IntN(4)
	for i := 0; i < n; i++ {
		switch mode {
		case 0:
			sb.WriteByte(byte(r.IntN(256)))
		case 1:
			sb.WriteByte(soup[r.IntN(len(soup))])
		case 2:
			sb.WriteByte(byte(32 + r.IntN(95)))
		default:
			if r.IntN(3) == 0 {
				sb.WriteString(kw[r.IntN(len(kw))])
				sb.WriteByte(" \n;\t"[r.IntN(4)])
			} else {
				sb.WriteByte(soup[r.IntN(len(soup))])
			}
		}
	}
	return sb.String()
}

type nestPair struct{ Open, Close string }

// NestPairs: constructs that can be nested or repeated n times (stack depth /
// super-linear behaviour probes).
var NestPairs = []nestPair{{"(", ")"}, {"$(", ")"}, {"{ ", "; }"}, {"${a:-", "}"}, {"\"$(", ")\""}, {"$((", "))"}, {"((", "))"},
	{"`", "`"}, {"if ", "; then :; fi"}, {"a=(", ")"}, {"[[ ( ", " ) ]]"}, {"<(", ")"}, {"while ", "; do :; done"},
	{"case x in x) ", ";; esac"}, {"f() ", ""}, {"! ", ""}, {"x | ", ""}, {"x && ", ""}, {"<<E\n", "\nE\n"}, {"${a[", "]}"}, {"@(", ")"},
	{"\"", "\""}, {"'", "'"}, {"\\", ""}, {"#", "\n"}, {"$", ""}, {"[", "]"}, {"a[", "]=1"}, {"-", ""}, {"1+", ""}, {"1?", ":2"}, {"(1,", ")"},
	{"a <<E\nb\nE\n", ""}, {"a <<E <<F\nb\nE\nc\nF\n", ""}, {"# c\n", ""}, {"a # c\n", ""}, {"x=1 ", ""}, {"echo a b c\n", ""}, {"a;", ""}, {"a\n", ""},
	{"a \\\n", ""}, {"$x", ""}, {"${x}", ""}, {"\"$x\" ", ""}, {">f ", ""}, {"a | ", "b"}, {"a && ", "b"}, {"\n", ""}, {" ", ""}, {"\x00", ""}, {"\r\n", ""}, {"é", ""}, {"\xff", ""},
	{"if a; then b; fi\n", ""}, {"[[ a == b ]]\n", ""}, {"((1+2))\n", ""}, {"f() { a; }\n", ""}, {"case a in b) c;; esac\n", ""}, {"a=(b c)\n", ""}, {"`a`", ""}, {"$(a)", ""}, {"'a'", ""}, {"\"a\"", ""},
	{"$'a'", ""}, {"<(a) ", ""}, {"a{b,c}", ""}, {"*", ""}, {"\\\\", ""}, {"elif a; then b; ", ""}}

func Nest(p nestPair, n int, closed bool) string {
	var sb strings.Builder
	for i := 0; i < n; i++ {
		sb.WriteString(p.Open)
	}
	sb.WriteString("x")
	if closed {
		for i := 0; i < n; i++ {
			sb.WriteString(p.Close)
		}
	}
	return sb.String()
}

func Deep(r *rand.Rand, n int) string {
	return Nest(NestPairs[r.IntN(len(NestPairs))], n, r.IntN(4) > 0)
}

// HeredocLast: programs in which a statement's LAST line is a here-document delimiter (every flavour), followed or not by
// more statements. Fed line by line they pin down that the statement is handed over right after the delimiter line.
var HeredocLast = []string{
	"cat <<EOF\nbody\nEOF\n", "cat <<EOF\nbody\nEOF\necho next\n", "cat <<-EOF\n\tbody\n\tEOF\n", "cat <<'EOF'\n$body\nEOF\n", "cat <<\"EOF\"\nbody\nEOF\nnext\n",
	"cat <<EOF\nEOF\n", "cat <<E <<F\na\nE\nb\nF\n", "cat <<E | tr a b\nx\nE\n", "a <<E && b\nx\nE\nc\n", "if a; then b <<E\nx\nE\nfi\n", "f() { cat <<E\nx\nE\n}\n",
	"{ cat <<E\nx\nE\n}\n", "(cat <<E\nx\nE\n)\n", "cat <<E &\nx\nE\nwait\n", "cat <<E; echo b\nx\nE\n", "while read l; do :; done <<E\nx\ny\nE\n", "cat <<E\n$(echo x)\n`y`\nE\nz\n",
	"x=$(cat <<E\nb\nE\n)\n", "cat <<E\n\nE\n\nnext\n", "cat <<\\E\na\\\nb\nE\n", "cat <<E # c\nx\nE\n# d\n", "! cat <<E\nx\nE\n", "a=1 cat <<E >f\nx\nE\n",
}

// Always: inputs every run visits regardless of the seed's corpus slice.
func Always() []string {
	out := append([]string{}, Pinned...)
	return append(out, HeredocLast...)
}

// Regress reads the pinned regression corpus of a property: <root>/corpus/<id>/regress.txt, one Go-quoted string per line
// ('#' lines are comments). root = $VERIF_ROOT, else the parent of the directory holding the executable, else /verif.
func Regress(id string) []string {
	root := os.Getenv("VERIF_ROOT")
	if root == "" {
		if exe, err := os.Executable(); err == nil {
			root = filepath.Dir(filepath.Dir(exe))
		}
	}
	b, err := os.ReadFile(filepath.Join(root, "corpus", id, "regress.txt"))
	if err != nil {
		b, err = os.ReadFile(filepath.Join("/verif/corpus", id, "regress.txt"))
		if err != nil {
			return nil
		}
	}
	var out []string
	for _, line := range strings.Split(string(b), "\n") {
		line = strings.TrimSpace(line)
		if line == "" || strings.HasPrefix(line, "#") {
			continue
		}
		if s, err := strconv.Unquote(line); err == nil {
			out = append(out, s)
		}
	}
	return out
}
