package hxc06

import (
	"fmt"
	"math/rand/v2"
	"strings"
)

// G is a grammar-directed generator of shell source text mixing constructs of
// every variant (POSIX, bash, mksh, bats, zsh). Most outputs are valid bash;
// the other variants accept a subset. With OnlyPOSIX every construct used is
// plain POSIX (meant to be valid in all five variants).
type G struct {
	R         *rand.Rand
	OnlyPOSIX bool
	depth     int
	hdocs     []string // pending here-document bodies, flushed at the next newline
}

func (g *G) p(n int) bool { return g.R.IntN(n) == 0 }
func (g *G) pick(l ...string) string {
	return l[g.R.IntN(len(l))]
}

var names = []string{"a", "b", "foo", "bar", "x", "_v1", "PATH", "i", "arr", "REPLY"}
var lits = []string{"a", "foo", "bar", "-x", "--opt=1", "1", "10", "a.b", "/usr/bin", "x_y", "é", "a=b", "%s", "@", "+", "a,b", "~", "~/x", "*", "?", "[a-z]", "a*b", "{a,b}", "{1..3}", "\\$", "\\\\", "a\\ b", "}", "{", "]", "in", "do", "]]", "!", "time", "-", "=", "==", "@test", "function", "a#b", "#x"}

func (g *G) name() string { return names[g.R.IntN(len(names))] }

// Word generates one shell word.
func (g *G) Word() string {
	n := 1
	if g.p(3) {
		n = 2 + g.R.IntN(2)
	}
	var sb strings.Builder
	for i := 0; i < n; i++ {
		sb.WriteString(g.wordPart())
	}
	return sb.String()
}

func (g *G) wordPart() string {
	g.depth++
	defer func() { g.depth-- }()
	if g.depth > 4 {
		return g.pick(lits[:12]...)
	}
	if g.OnlyPOSIX {
		switch g.R.IntN(12) {
		case 0:
			return "'" + g.pick("a b", "", "$x", "a\"b", "\\", "`") + "'"
		case 1:
			return "\"" + g.dqBody() + "\""
		case 2:
			return "$" + g.pick("a", "foo", "1", "@", "*", "#", "?", "$", "!", "-", "0")
		case 3:
			return g.posixParamExp()
		case 4:
			return "$(" + g.stmtsInline() + ")"
		case 5:
			return "`" + g.pick("foo", "echo a", "a | b", "echo \\`x\\`", "") + "`"
		case 6:
			return "$((" + g.posixArith() + "))"
		default:
			return g.pick(lits[:22]...)
		}
	}
	switch g.R.IntN(22) {
	case 0:
		return "'" + g.pick("a b", "", "$x", "a\"b", "\\", "`", "\n") + "'"
	case 1:
		return "\"" + g.dqBody() + "\""
	case 2:
		return "$" + g.pick("a", "foo", "1", "@", "*", "#", "?", "$", "!", "-", "0", "_")
	case 3, 4:
		return g.ParamExp()
	case 5:
		return "$(" + g.stmtsInline() + ")"
	case 6:
		return "`" + g.pick("foo", "echo a", "a | b", "echo \\`x\\`", "", "echo \"\\$x\"", "a <<E\nb\nE\n") + "`"
	case 7:
		return "$((" + g.Arith() + "))"
	case 8:
		return "$[" + g.Arith() + "]"
	case 9:
		return "$'" + g.pick("a", "\\n", "\\'", "a\\x41", "\\u00e9", "") + "'"
	case 10:
		return "$\"" + g.dqBody() + "\""
	case 11:
		return g.pick("<(", ">(", "=(") + g.stmtsInline() + ")"
	case 12:
		return g.pick("@", "?", "*", "+", "!") + "(" + g.pick("a", "a|b", "*.c|?x", "", "a|@(b|c)") + ")"
	case 13:
		return "${ " + g.stmtsInline() + ";}"
	case 14:
		return "${|" + g.stmtsInline() + ";}"
	case 15:
		return g.pick("<1-10>", "<->", "<5->", "*(.)", "**/*", "a(#i)b", "^a", "a~b", "x#", "(a|b)")
	default:
		return lits[g.R.IntN(len(lits))]
	}
}

func (g *G) dqBody() string {
	n := g.R.IntN(4)
	var sb strings.Builder
	for i := 0; i < n; i++ {
		switch g.R.IntN(9) {
		case 0:
			sb.WriteString("$" + g.name())
		case 1:
			if g.OnlyPOSIX {
				sb.WriteString(g.posixParamExp())
			} else {
				sb.WriteString(g.ParamExp())
			}
		case 2:
			sb.WriteString("$(" + g.stmtsInline() + ")")
		case 3:
			sb.WriteString("`" + g.pick("a", "echo \\\"x\\\"", "") + "`")
		case 4:
			if g.OnlyPOSIX {
				sb.WriteString("$((" + g.posixArith() + "))")
			} else {
				sb.WriteString("$((" + g.Arith() + "))")
			}
		case 5:
			sb.WriteString(g.pick("\\\"", "\\$", "\\\\", "\\`", "\\a", "\\\n"))
		default:
			sb.WriteString(g.pick("a", " ", "b c", "'", "#", "é", "\n", "!", "*"))
		}
	}
	return sb.String()
}

func (g *G) posixArith() string {
	g.depth++
	defer func() { g.depth-- }()
	if g.depth > 5 || g.p(2) {
		return g.pick("1", "0", "42", "a", "foo", "$a", "${a}")
	}
	switch g.R.IntN(4) {
	case 0:
		return "(" + g.posixArith() + ")"
	case 1:
		return g.pick("!", "~", "-", "+") + g.posixArith()
	default:
		return g.posixArith() + g.pick(" + ", "-", "*", " / ", "%", "<<", ">>", "<", ">", "<=", ">=", "==", "!=", "&", "|", "^", "&&", "||") + g.posixArith()
	}
}

func (g *G) posixParamExp() string {
	n := g.pick("a", "foo", "1", "@", "*", "#", "?", "10")
	switch g.R.IntN(6) {
	case 0:
		return "${" + n + "}"
	case 1:
		return "${#" + g.name() + "}"
	case 2, 3:
		return "${" + n + g.pick(":-", "-", ":=", "=", ":?", "?", ":+", "+") + g.argWord() + "}"
	default:
		return "${" + n + g.pick("#", "##", "%", "%%") + g.argWord() + "}"
	}
}

func (g *G) argWord() string {
	if g.p(3) {
		return ""
	}
	return g.pick("a", "b c", "*.c", "\"x y\"", "'q'", "$b", "${b:-c}", "$(c)", "\\}", "/", "[a-z]*")
}

// ParamExp generates ${...} with operators of every variant.
func (g *G) ParamExp() string {
	n := g.pick("a", "foo", "1", "@", "*", "#", "?", "10", "arr[0]", "arr[@]", "arr[*]", "arr[i+1]", "a[\"k\"]", "!", "-", "$")
	switch g.R.IntN(24) {
	case 0:
		return "${" + n + "}"
	case 1:
		return "${#" + n + "}"
	case 2, 3:
		return "${" + n + g.pick(":-", "-", ":=", "=", ":?", "?", ":+", "+") + g.argWord() + "}"
	case 4:
		return "${" + n + g.pick("#", "##", "%", "%%") + g.argWord() + "}"
	case 5:
		return "${" + n + g.pick("/", "//", "/#", "/%") + g.argWord() + g.pick("", "/", "/"+g.argWord()) + "}"
	case 6:
		return "${" + n + ":" + g.pick("1", "1:2", " -1", "a", "a:b", "$x:1", ":", "0:-1") + "}"
	case 7:
		return "${" + n + g.pick("^", "^^", ",", ",,") + g.pick("", "a", "[a-c]") + "}"
	case 8:
		return "${" + n + "@" + g.pick("Q", "E", "P", "A", "a", "K", "k", "U", "u", "L", "x", "#") + "}"
	case 9:
		return "${!" + g.name() + g.pick("", "*", "@", "[@]", "[*]", ":-x") + "}"
	case 10:
		return "${%" + g.name() + "}"
	case 11:
		return "${+" + g.name() + "}"
	case 12:
		return "${(" + g.pick("U", "s:,:", "j: :", "f", "@", "Ll") + ")" + g.name() + "}"
	case 13:
		return "${" + g.pick("=", "==", "~", "~~", "^", "^^") + g.name() + "}"
	case 14:
		return "${${" + g.name() + "}" + g.pick("", ":-x", "#a", "[1]") + "}"
	case 15:
		return "${" + g.name() + ":" + g.pick("h", "t", "r", "e", "u", "l", "h2", "t5:h2:l", "s/a/b/", "gs/a/b", "A", "a", "&") + "}"
	case 16:
		return "${" + g.name() + g.pick(":#", ":|", ":*", ":^", ":^^") + g.argWord() + "}"
	case 17:
		return "${" + g.name() + "[" + g.pick("1,2", "(r)a*", "(i)x", "-1", "1,-1", "$i") + "]}"
	case 18:
		return "${" + g.pick("", "#", "!", "a b", "a-", "1a", "a[", "a[1", "@@", "a:", "a:-", "a/", "#a#", "##", "#?", "#-", "#:-a") + "}"
	case 19:
		return "${" + g.name() + g.pick("@", "@@", "%%%", ":::", "^^^", "!", "~") + "}"
	default:
		return "${" + n + "}"
	}
}

// Arith generates an arithmetic expression body (all variants' operators).
func (g *G) Arith() string {
	g.depth++
	defer func() { g.depth-- }()
	if g.depth > 5 {
		return g.pick("1", "a", "$a")
	}
	switch g.R.IntN(22) {
	case 0, 1:
		return g.pick("1", "0", "42", "0x1f", "010", "16#ff", "a", "foo", "$a", "${a}", "1.5", "a[1]", "arr[i]", "'x'", "\"1\"", "$(echo 1)", "`echo 1`", "$((1))")
	case 2, 3, 4:
		return g.Arith() + g.pick(" + ", "-", "*", " / ", "%", "**", "<<", ">>", "<", ">", "<=", ">=", "==", "!=", "&", "|", "^", "&&", "||", ",", "^^") + g.Arith()
	case 5:
		return "(" + g.Arith() + ")"
	case 6:
		return g.pick("!", "~", "-", "+", "++", "--") + g.Arith()
	case 7:
		return g.name() + g.pick("++", "--")
	case 8:
		return g.Arith() + " ? " + g.Arith() + " : " + g.Arith()
	case 9:
		return g.name() + g.pick("=", "+=", "-=", "*=", "/=", "%=", "<<=", ">>=", "&=", "|=", "^=", "**=", "&&=", "||=", "^^=") + g.Arith()
	case 10:
		return g.pick("", " ", "1 +", "* 2", "( 1", "1 )", "1 ? 2", "a b", "1 2", "#", "a[", "a[1", "1 :", "? :", "= 1", "1 = 2", "$", "\\", "a.b", "1.", ".5", "1e3", "#a", "${#a}", "a#b", "2#", "@", "`")
	default:
		return g.pick("1", "a", "i", "2")
	}
}

func (g *G) stmtsInline() string {
	g.depth++
	defer func() { g.depth-- }()
	if g.depth > 4 || g.p(4) {
		return g.pick("foo", "echo a", "a | b", "a; b", "true")
	}
	saved := g.hdocs
	g.hdocs = nil
	s := g.Stmt()
	if len(g.hdocs) > 0 {
		s += "\n" + g.flushHdocs()
	}
	g.hdocs = saved
	return s
}

func (g *G) flushHdocs() string {
	var sb strings.Builder
	for _, h := range g.hdocs {
		sb.WriteString(h)
	}
	g.hdocs = nil
	return sb.String()
}

func (g *G) Redir() string {
	if g.OnlyPOSIX {
		switch g.R.IntN(8) {
		case 0:
			return g.heredoc()
		default:
			return g.pick("", "2", "1") + g.pick(">", ">>", "<", "<>", ">&", "<&", ">|") + g.pick("f", "/dev/null", "2", "-", "$f", "\"a b\"")
		}
	}
	switch g.R.IntN(14) {
	case 0, 1:
		return g.heredoc()
	case 2:
		return "<<<" + g.pick("", " ") + g.Word()
	case 3:
		return g.pick("&>", "&>>") + g.Word()
	case 4:
		return "{" + g.name() + "}" + g.pick(">", "<", ">>", "<&", ">&") + g.pick("f", "-", "1")
	case 5:
		return g.pick(">!", ">>!", "&>!", ">&|", ">&!", "&>|", ">>|", "&>>!", "&>>|", ">>&", ">>&!") + g.Word()
	case 6:
		return g.pick("<", ">") + " " + g.pick("<(", ">(") + g.stmtsInline() + ")"
	default:
		return g.pick("", "2", "1", "10") + g.pick(">", ">>", "<", "<>", ">&", "<&", ">|") + g.pick("", " ") + g.pick("f", "/dev/null", "2", "-", "$f", "\"a b\"", "1-")
	}
}

func (g *G) heredoc() string {
	tag := g.pick("EOF", "E", "END_1", "'EOF'", "\"EOF\"", "E\\OF")
	if !g.OnlyPOSIX && g.p(10) {
		tag = "$x"
	}
	op := g.pick("<<", "<<-", "<<")
	stop := strings.NewReplacer("'", "", "\"", "", "\\", "").Replace(tag)
	body := ""
	for i := g.R.IntN(3); i > 0; i-- {
		body += g.pick("line\n", "\t$a ${b:-c}\n", "$(echo x)\n", "`y`\n", "a \\\nb\n", "'\"\n", "\tEOFx\n", "$((1+2))\n", "\\$x\n", "\n",
			"$(a &&\n\tb)\n", "\t$(a |\n\t\tb)\n", "$(foo \\\n\tbar)\n", "\t$(if a; then\n\tb\nfi)\n", "`a &&\nb`\n")
	}
	term := stop + "\n"
	if op == "<<-" && g.p(2) {
		term = "\t" + term
	}
	if !g.OnlyPOSIX && g.p(12) {
		term = "" // unclosed
	}
	g.hdocs = append(g.hdocs, body+term)
	return op + g.pick("", " ") + tag
}

func (g *G) simple() string {
	var parts []string
	if g.p(4) {
		n := 1 + g.R.IntN(2)
		for i := 0; i < n; i++ {
			parts = append(parts, g.Assign())
		}
	}
	if g.p(8) {
		parts = append(parts, g.Redir())
	}
	if len(parts) == 0 || !g.p(3) {
		if g.OnlyPOSIX {
			parts = append(parts, g.pick("echo", "foo", "printf", ":", "true", "cmd", "\"$x\"", "$cmd", "a/b", "[", "test", "eval", "exec"))
		} else {
			parts = append(parts, g.pick("echo", "foo", "printf", ":", "true", "cmd", "\"$x\"", "$cmd", "a/b", "[", "test", "eval", "exec", "@test", "let", "time", "function"))
		}
		n := g.R.IntN(4)
		for i := 0; i < n; i++ {
			if g.p(6) {
				parts = append(parts, g.Redir())
			} else {
				parts = append(parts, g.Word())
			}
		}
	}
	return strings.Join(parts, " ")
}

func (g *G) Assign() string {
	n := g.name()
	if g.OnlyPOSIX {
		return n + "=" + g.pick("", g.Word())
	}
	switch g.R.IntN(10) {
	case 0:
		return n + "+=" + g.Word()
	case 1:
		return n + "=(" + g.arrayElems() + ")"
	case 2:
		return n + "+=(" + g.arrayElems() + ")"
	case 3:
		return n + "[" + g.pick("1", "i+1", "\"k\"", "$i", "a b") + "]" + g.pick("=", "+=") + g.Word()
	default:
		return n + "=" + g.pick("", g.Word())
	}
}

func (g *G) arrayElems() string {
	n := g.R.IntN(4)
	var parts []string
	for i := 0; i < n; i++ {
		switch g.R.IntN(6) {
		case 0:
			parts = append(parts, "["+g.pick("1", "k", "i+1", "\"a b\"")+"]="+g.Word())
		case 1:
			parts = append(parts, "\n")
		case 2:
			parts = append(parts, "# c\n")
		default:
			parts = append(parts, g.Word())
		}
	}
	return strings.Join(parts, " ")
}

func (g *G) sep() string {
	return g.pick("; ", "\n", ";\n", " ;")
}

func (g *G) body() string {
	g.depth++
	defer func() { g.depth-- }()
	n := 1
	if g.p(3) {
		n = 2
	}
	if !g.OnlyPOSIX && g.p(15) {
		n = 0
	}
	var sb strings.Builder
	for i := 0; i < n; i++ {
		sb.WriteString(g.Stmt())
		s := g.sep()
		if len(g.hdocs) > 0 {
			s = "\n"
		}
		sb.WriteString(s)
		if strings.Contains(s, "\n") {
			sb.WriteString(g.flushHdocs())
		}
		if g.p(10) {
			sb.WriteString("# c" + g.pick("", " x", "`", "\\") + "\n")
		}
	}
	return sb.String()
}

func (g *G) testExpr() string {
	g.depth++
	defer func() { g.depth-- }()
	if g.depth > 5 {
		return "a"
	}
	switch g.R.IntN(12) {
	case 0:
		return g.testExpr() + g.pick(" && ", " || ") + g.testExpr()
	case 1:
		return "! " + g.testExpr()
	case 2:
		return "( " + g.testExpr() + " )"
	case 3:
		return g.pick("-f", "-z", "-n", "-e", "-d", "-v", "-R", "-o", "-t") + " " + g.Word()
	case 4, 5:
		return g.Word() + " " + g.pick("==", "=", "!=", "<", ">", "-eq", "-ne", "-lt", "-nt", "-ot", "-ef") + " " + g.Word()
	case 6:
		return g.Word() + " =~ " + g.pick("^a.*$", "(a|b)+", "a\\ b", "[[:alpha:]]", "$re", "\"q\"", "a(b", "()", "a|b", " ", "^(a b)$")
	case 7:
		return g.pick("", "a ==", "== a", "a b", "-f", "a &&", "( a", "a )", "a < ", "a =~", "]]", "a -zz b", "&& a")
	default:
		return g.Word()
	}
}

// Stmt generates one statement (possibly a pipeline / and-or list).
func (g *G) Stmt() string {
	g.depth++
	defer func() { g.depth-- }()
	if g.depth > 5 {
		return g.simple()
	}
	if g.OnlyPOSIX {
		switch g.R.IntN(20) {
		case 0:
			return "if " + g.body() + "then " + g.body() + g.pick("", "else "+g.body(), "elif "+g.body()+"then "+g.body()) + "fi"
		case 1:
			return g.pick("while ", "until ") + g.body() + "do " + g.body() + "done"
		case 2:
			return "for " + g.name() + g.pick("", " in a b", " in \"$@\"", " in") + g.sep() + "do " + g.body() + "done"
		case 3:
			return "case " + g.Word() + " in " + g.pick("", "a) "+g.body()+";; ", "(a|b) x ;; *) "+g.body()+";; ", "a) ;; ") + "esac"
		case 4:
			return g.name() + "() " + g.pick("{ "+g.body()+"}", "( "+g.body()+")")
		case 5:
			return "{ " + g.body() + "}"
		case 6:
			return "( " + g.body() + ")"
		case 7:
			return g.Stmt() + g.pick(" | ", " && ", " || ", " |\n", " &&\n") + g.Stmt()
		case 8:
			return "! " + g.simple()
		case 9:
			return g.simple() + " &"
		default:
			return g.simple()
		}
	}
	switch g.R.IntN(44) {
	case 0:
		return "if " + g.body() + "then " + g.body() + g.pick("", "else "+g.body(), "elif "+g.body()+"then "+g.body()) + "fi"
	case 1:
		return g.pick("while ", "until ") + g.body() + "do " + g.body() + "done"
	case 2:
		return "for " + g.name() + g.pick("", " in a b", " in \"$@\"", " in") + g.sep() + "do " + g.body() + "done"
	case 3:
		return "for ((" + g.pick("", g.Arith()) + ";" + g.pick("", " "+g.Arith()) + ";" + g.pick("", g.Arith()) + "))" + g.pick("; do ", "\ndo ", " do ", " { ") + g.body() + g.pick("done", "}")
	case 4:
		return "select " + g.name() + g.pick("", " in a b") + "; do " + g.body() + "done"
	case 5, 6:
		items := ""
		for i := g.R.IntN(3); i > 0; i-- {
			items += g.pick("", "(") + g.pick("a", "a|b", "*", "\"x\"", "@(a|b)", "[a-z]*", "$x") + ") " + g.pick("", g.body()) + g.pick(";;", ";&", ";;&", ";|", ";;") + g.pick(" ", "\n", " # c\n")
		}
		return "case " + g.Word() + g.pick(" in ", " in\n", " { ") + items + g.pick("esac", "esac", "}")
	case 7:
		return g.name() + "() " + g.pick("{ "+g.body()+"}", "( "+g.body()+")", g.simple(), "{ "+g.body()+"} "+g.Redir())
	case 8:
		return "function " + g.pick(g.name(), "a-b", "a.b", g.name()+" "+g.name(), "") + g.pick("", "()", " ()") + " { " + g.body() + "}"
	case 9:
		return "{ " + g.body() + "}"
	case 10:
		return "( " + g.body() + ")"
	case 11, 12:
		return g.Stmt() + g.pick(" | ", " && ", " || ", " |& ", " |\n", " &&\n", " | # c\n") + g.Stmt()
	case 13:
		return "! " + g.simple()
	case 14:
		return g.simple() + g.pick(" &", " &!", " &|", " |&")
	case 15, 16:
		return "[[ " + g.testExpr() + " ]]"
	case 17:
		return "((" + g.Arith() + "))"
	case 18:
		return "let " + g.pick(g.Arith(), "a=1 b+=2", "\"a = 1\"", "a++ 'b'", "", "(1)", "a=(1)")
	case 19:
		return g.pick("declare", "local", "export", "readonly", "typeset", "nameref") + " " + g.pick("", "-a ", "-r -x ", "-A ", "+x ", "-n ") + g.pick(g.Assign(), g.name(), g.name()+" "+g.Assign(), "", "\"$x\"=1", "$(echo a)", "-")
	case 20:
		return "coproc " + g.pick(g.simple(), g.name()+" { "+g.body()+"}", "{ "+g.body()+"}", "", g.name()+" "+g.simple())
	case 21:
		return "time " + g.pick("", "-p ") + g.pick(g.simple(), "", "{ "+g.body()+"}")
	case 22:
		return "@test " + g.pick("'desc'", "\"a $b\"", "desc", "") + " { " + g.body() + "}"
	case 23:
		return "() { " + g.body() + "}" + g.pick("", " a b")
	case 24:
		return g.pick("{}", "{ }", "() ()", "f () ()", "if ; then ; fi", "while ; do ; done", "case x in esac", "for i in; do :; done", "( )", "$( )", "{ } }")
	case 25:
		return g.Redir() + " " + g.pick("{ "+g.body()+"}", "if a; then b; fi", "while a; do b; done", g.simple())
	case 26:
		return g.pick("if a; then b; fi", "{ a; }", "( a )", "while a; do b; done", "[[ a ]]", "((1))", "case a in esac", "for i in 1; do :; done") + " " + g.Redir()
	case 27:
		return g.pick("fi", "done", "esac", "then", "do", "}", ")", "]]", "elif x", "else", ";;", "in", ";", "&", "|", "&&", "))", "if", "for", "case", "while x", "select", "function", "{", "(", "[[", "((", "!", "! !", "a ;; b", "a )", "time", "coproc")
	default:
		return g.simple()
	}
}

// Program generates a multi-line program.
func (g *G) Program() string {
	g.depth = 0
	g.hdocs = nil
	n := 1 + g.R.IntN(4)
	var sb strings.Builder
	if g.p(15) {
		sb.WriteString(g.pick("#!/bin/sh\n", "#!/usr/bin/env bash\n", "# comment\n\n"))
	}
	for i := 0; i < n; i++ {
		sb.WriteString(g.Stmt())
		if len(g.hdocs) > 0 {
			sb.WriteString("\n" + g.flushHdocs())
			continue
		}
		if i == n-1 && g.p(3) {
			break
		}
		if g.OnlyPOSIX {
			sb.WriteString(g.pick("\n", "\n", "; ", " # tail\n", "\n\n", " &\n"))
		} else {
			sb.WriteString(g.pick("\n", "\n", "; ", " # tail\n", "\n\n", " &\n", "\r\n"))
		}
	}
	return sb.String()
}

// Streams of generated inputs.
var Streams = []string{"gen", "genposix", "mut", "mutgen", "rand", "deep", "word", "arith"}

// ByName produces one generated input of the named stream.
func ByName(r *rand.Rand, stream string, pool []string) string {
	switch stream {
	case "gen":
		return (&G{R: r}).Program()
	case "genposix":
		return (&G{R: r, OnlyPOSIX: true}).Program()
	case "mut":
		return Mutate(r, pool[r.IntN(len(pool))], pool)
	case "mutgen":
		return Mutate(r, (&G{R: r}).Program(), pool)
	case "rand":
		return RandomBytes(r)
	case "deep":
		return Deep(r, 1+r.IntN(40))
	case "word":
		return (&G{R: r}).Word()
	case "arith":
		return (&G{R: r}).Arith()
	}
	panic(fmt.Sprint("unknown stream ", stream))
}
