package hxc06

import (
	"encoding/json"
	"os"
	"runtime"
	"sync/atomic"
	"time"
)

var current atomic.Value // string: what the harness is working on

// SetCurrent records the case being run (reported if the guard aborts the process).
func SetCurrent(s string) { current.Store(s) }

// Guard aborts the process when it runs longer than maxDur or its heap grows beyond maxBytes: a parser that stops
// advancing (or allocates without bound) under a mutated tree must become an observation, not a hung or swapping run.
// It prints {"aborted": reason, "current": ...} on stdout and exits with status 3.
func Guard(maxDur time.Duration, maxBytes uint64) {
	start := time.Now()
	go func() {
		for {
			time.Sleep(200 * time.Millisecond)
			var ms runtime.MemStats
			runtime.ReadMemStats(&ms)
			reason := ""
			if ms.HeapAlloc > maxBytes {
				reason = "memory"
			} else if time.Since(start) > maxDur {
				reason = "time"
			}
			if reason != "" {
				cur, _ := current.Load().(string)
				b, _ := json.Marshal(map[string]string{"aborted": reason, "current": cur})
				os.Stdout.Write(append(append([]byte("\n"), b...), '\n'))
				os.Exit(3)
			}
		}
	}()
}
