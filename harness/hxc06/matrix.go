package hxc06

import (
	"reflect"
	"strings"

	"mvdan.cc/sh/v3/syntax"
)

// ---------------------------------------------------------------------------------------------------------------
// Operand matrix (fixed enumeration): every operand slot of every small construct template is filled with every
// degenerate / edge operand shape. Post-processing (Print, Walk, typedjson, Simplify) runs on every tree that comes
// back, so rewriting code that assumes "an operand has at least one part" and the like is exercised in every slot.

// Shapes: operands that are empty, quoted-empty, a lone expansion in quotes, several parts, nested, parenthesised ...
var Shapes = []string{
	`""`, `''`, `$''`, `$""`, `"$x"`, `"${x}"`, `"$x$y"`, `"a $x"`, `"a"`, `'a'`, `$x`, `${x}`, `"$(a)"`, `"$((1))"`, `"${x[1]}"`, `"${x:-}"`, `"$@"`,
	`"\$x"`, `"\\"`, `"'"`, `"a\"b"`, `""""`, `""''`, `"$x"""`, `$(a)`, "`a`", `$((1))`, `$(( (1) ))`, `$(($x))`, `$((${x}))`, `$(("$x"))`, `$(())`, `$( )`, "``",
	`(1)`, `((1))`, `${x:$((1)):(2)}`, `${x[(1)]}`, `a`, `1`, `-n`, `!`, `*`, `a*`, `@(a)`, `{a,b}`, `~`, `\a`, `a\ b`, `é`, `"é"`, `$x$y`, `${#x}`, `${x/""/""}`, `${x:-""}`,
}

// Templates: %s is the operand slot; one slot is filled at a time, the others get a plain `a`.
var Templates = []string{
	// tests: unary and binary operators, both sides, nested in parens / negation / && ||
	"[[ %s ]]", "[[ -n %s ]]", "[[ -z %s ]]", "[[ -f %s ]]", "[[ -v %s ]]", "[[ ! %s ]]", "[[ ! -n %s ]]", "[[ ( %s ) ]]", "[[ ! ( %s ) ]]",
	"[[ %s == %s ]]", "[[ %s = %s ]]", "[[ %s != %s ]]", "[[ %s =~ %s ]]", "[[ %s < %s ]]", "[[ %s > %s ]]",
	"[[ %s -eq %s ]]", "[[ %s -ne %s ]]", "[[ %s -lt %s ]]", "[[ %s -ge %s ]]", "[[ %s -nt %s ]]", "[[ %s -ef %s ]]",
	"[[ %s && %s ]]", "[[ %s || %s ]]", "[[ -n %s && ! -z %s ]]", "[[ ! %s == %s ]]", "[[ ( %s == %s ) ]]",
	"[ %s = %s ]", "test -n %s",
	// arithmetic
	"echo $((%s))", "echo $((%s + %s))", "echo $(((%s)))", "echo $((%s ? %s : %s))", "((%s))", "((%s + %s))", "(((%s)))", "let %s", "echo $[%s]",
	"echo ${a[%s]}", "echo ${a:%s:%s}", "a[%s]=b", "for ((i = %s; i < %s; i++)); do :; done",
	// words in every position
	"%s", "echo %s", "echo %s%s", "echo a%sb", "a=%s", "a=%s b", "a=(%s %s)", "a=([%s]=%s)", "a+=%s", "export a=%s", "declare -a a=(%s)", "local %s",
	"echo ${a:-%s}", "echo ${a#%s}", "echo ${a/%s/%s}", "echo ${a:+%s}", "echo \"${a:-%s}\"", "echo \"%s\"",
	"case %s in %s) a ;; esac", "case a in (%s|%s) ;; esac", "for i in %s %s; do :; done", "select i in %s; do :; done",
	"a >%s", "a <%s", "a 2>&%s", "a <<<%s", "a >>%s <%s", "cat <<%s\nb\nEOF\n", "cat <<EOF\n%s\nEOF\n",
	"(%s)", "( (%s) )", "$(%s)", "echo $( (%s) )", "{ %s; }", "! %s", "%s | %s", "%s && %s", "f() %s", "function f { %s; }", "if %s; then %s; fi", "while %s; do %s; done",
	"coproc %s", "time %s", "@test %s { a; }", "%s() { a; }", "function %s { a; }", "a %s & b", "echo <(%s)", "echo %s # c",
}

// Matrix expands Templates x Shapes (one slot varied at a time).
func Matrix() []string {
	seen := map[string]bool{}
	var out []string
	for _, t := range Templates {
		n := strings.Count(t, "%s")
		for slot := 0; slot < n; slot++ {
			for _, sh := range Shapes {
				var sb strings.Builder
				k := 0
				rest := t
				for {
					i := strings.Index(rest, "%s")
					if i < 0 {
						sb.WriteString(rest)
						break
					}
					sb.WriteString(rest[:i])
					if k == slot {
						sb.WriteString(sh)
					} else {
						sb.WriteString("a")
					}
					k++
					rest = rest[i+2:]
				}
				if s := sb.String(); !seen[s] {
					seen[s] = true
					out = append(out, s)
				}
			}
		}
	}
	return out
}

// ---------------------------------------------------------------------------------------------------------------
// Read-buffer boundary inputs (fixed enumeration): one long run of a filler inside each lexical context, with run
// lengths that put the end of the run (and any lookahead past it) on either side of 1x and 2x the parser's read buffer,
// always followed by more than one further buffer of input.

// BufSize is len(Parser.readBuf), taken from the running code by reflection.
func BufSize() int {
	f, ok := reflect.TypeFor[syntax.Parser]().FieldByName("readBuf")
	if !ok || f.Type.Kind() != reflect.Array {
		return 1024
	}
	return f.Type.Len()
}

type edgeTemplate struct{ Pre, Fill, Post string }

var EdgeTemplates = []edgeTemplate{
	{"echo <", "1", "-5> x"}, {"echo <", "1", "> x"}, {"echo <", "7", " x"}, {"echo <", "0", ""}, {"echo <-", "9", "> x"}, {"cat <", "3", "-"},
	{"echo ", "a", " b"}, {"", "a", " b"}, {"echo '", "a", "' b"}, {"echo \"", "a", "\" b"}, {"echo $'", "a", "' b"}, {"# ", "c", ""}, {"echo a #", "c", ""},
	{"cat <<EOF\n", "a", "\nEOF"}, {"cat <<-EOF\n\t", "a", "\n\tEOF"}, {"cat <<'EOF'\n", "a", "\nEOF"}, {"cat <<", "E", "\nx\nE"},
	{"echo $", "a", " b"}, {"echo ${", "a", "} b"}, {"echo ${a:-", "b", "} c"}, {"echo ${a[", "1", "]} b"}, {"echo $((", "1", " + 1)) b"}, {"echo $((1", " ", "+ 1)) b"},
	{"", " ", "foo"}, {"", "\t", "foo"}, {"", "\n", "foo"}, {"echo ", "\\\\", " b"}, {"echo a", "\\\n", "b"}, {"echo ", "é", " b"}, {"echo ", "\xff", " b"}, {"echo ", "\x00", "b"}, {"echo a", "\r\n", "b"},
	{"a=", "b", " c"}, {"", "a", "=b c"}, {"a=(", "b ", ") c"}, {"echo {", "a", ",b} c"}, {"echo @(", "a", ") b"}, {"echo *(", "a", ") b"}, {"[[ a =~ ", "b", " ]]"}, {"[[ a =~ (", "b", ") ]]"}, {"[[ ", "a", " == b ]]"},
	{"echo `", "a", "` b"}, {"echo $(", "a", ") b"}, {"echo <(", "a", ") b"}, {"echo ", "$a", " b"}, {"echo ", "'a'", " b"}, {"echo ", "\"a\"", " b"}, {"echo ", "a ", "b"}, {"a ", ">f ", "b"}, {"", "a;", "b"}, {"", "a|", "b"},
	{"echo ${(", "U", ")x} b"}, {"echo ${x:", "h:", "t} b"}, {"echo a(", "b", ") c"}, {"echo ", "*", " b"}, {"echo ", "=", " b"}, {"echo ", "!", " b"}, {"echo ", "~", " b"}, {"echo ", "[", " b"}, {"echo ", "{", " b"}, {"echo ", "-", " b"},
	// a token of every kind BEGINNING at the boundary (the run before it is made of two-byte words)
	{"echo ", "a ", "\\b c"}, {"echo ", "a ", "'q' c"}, {"echo ", "a ", "\"q\" c"}, {"echo ", "a ", "$x c"}, {"echo ", "a ", "$(x) c"}, {"echo ", "a ", ">f c"}, {"echo ", "a ", "# c"},
	{"echo ", "a ", "; \\c"}, {"echo ", "a ", "&& c"}, {"echo ", "a ", "<<<x c"}, {"echo ", "a ", "é c"}, {"echo ", "a ", "$$ c"}, {"echo ", "a ", "`x` c"}, {"echo ", "a ", "<1-5> c"}, {"echo ", "a ", "{b,c} d"},
	{"case x in ", "a|", "b) c ;; esac"}, {"case ", "a", " in b) c ;; esac"}, {"for i in ", "a ", "; do b; done"}, {"f", "a", "() { b; }"}, {"let ", "1+", "1"}, {"((", "1+", "1))"}, {"echo ${a/", "b", "/c} d"}, {"echo ${a:", "1", ":2} b"},
}

// BufEdge returns the boundary inputs for buffer size b.
func BufEdge(b int) []string {
	var out []string
	tail := "\n" + strings.Repeat("echo more text\n", (b+b/4)/15+1)
	for _, t := range EdgeTemplates {
		for _, base := range []int{b, 2 * b} {
			for total := base - 4; total <= base+4; total++ {
				// choose the run so that Pre+run ends at offset `total`
				runBytes := total - len(t.Pre)
				if runBytes <= 0 {
					continue
				}
				n := runBytes / len(t.Fill)
				if n < 1 {
					continue
				}
				out = append(out, t.Pre+strings.Repeat(t.Fill, n)+t.Post+tail)
			}
		}
	}
	return out
}

// ---------------------------------------------------------------------------------------------------------------
// Product families: ONE construct in which two (or three) parts grow together: Head + A*n + Mid + B*n + Tail.
// Work that is linear in each part but done once per element of the other part shows up as super-linear step counts.
type productFamily struct{ Head, A, Mid, B, Tail string }

var ProductFamilies = []productFamily{
	{"", "a=1 ", "cmd", " x", "\n"}, {"", "a=1 ", "", "b[1]=2 ", "cmd x\n"}, {"cmd", " >f", "", " x", "\n"}, {"", ">f ", "cmd", " x", "\n"}, {"a=1 ", ">f ", "cmd", " <g", "\n"},
	{"a=(", "x ", ") cmd", " y", "\n"}, {"a=(", "[1]=x ", ")", " b=2", "\n"}, {"declare ", "a=1 ", "", "b ", "\n"}, {"export ", "a=(1) ", "", "b=2 ", "\n"}, {"let ", "a=1 ", "", "b++ ", "\n"},
	{"case x in ", "a|", "b) ", "c; ", ";; esac\n"}, {"case x in ", "a) b ;; ", "*) ", "c; ", ";; esac\n"}, {"for i in ", "a ", "; do ", "b; ", "done\n"}, {"if a; then ", "b; ", "else ", "c; ", "fi\n"},
	{"if a; then b; ", "elif c; then d; ", "else ", "e; ", "fi\n"}, {"", "a | ", "b", " x", "\n"}, {"", "a && ", "b", " x", "\n"}, {"echo ", "$(", "a", " x", strings.Repeat(")", 1)}, {"echo ", "$a", "", " $b", "\n"},
	{"echo \"", "$a", "\" ", "\"$b\" ", "\n"}, {"cat <<E ", "<<F ", "\n", "l\n", "E\n"}, {"", "# c\n", "cmd", " x", "\n"}, {"f() { ", "a; ", "}; f", " x", "\n"}, {"[[ ", "a && ", "b ]] && cmd", " x", "\n"},
	{"echo $((", "1+", "1)) ", "$((2)) ", "\n"}, {"echo ${a:-", "b ", "} ", "c ", "\n"}, {"echo {", "a,", "b} ", "{c,d} ", "\n"}, {"", "a=1 ", "b=(", "x ", ")\n"}, {"cmd ", "x ", "<<E\n", "l\n", "E\n"},
	{"", "a;", "", "b &\n", ""}, {"(", "a;", ")", " >f", "\n"}, {"{ ", "a; ", "}", " >f", "\n"}, {"echo ", "a\\\n", "b", " c", "\n"}, {"time ", "a=1 ", "cmd", " x", "\n"}, {"coproc ", "a=1 ", "cmd", " x", "\n"}, {"! ", "a=1 ", "cmd", " x", "\n"},
	{"echo ", "'a'", "", "\"b\"", "\n"}, {"echo ", "@(a|", "b", ")", " x\n"}, {"select i in ", "a ", "; do ", "b; ", "done\n"}, {"while ", "a; ", "do ", "b; ", "done\n"}, {"function f { ", "a=1 ", "cmd", " x", "; }\n"},
}

func Product(p productFamily, n int) string {
	tail := p.Tail
	if p.A == "$(" {
		tail = strings.Repeat(")", n) + "\n"
	}
	return p.Head + strings.Repeat(p.A, n) + p.Mid + strings.Repeat(p.B, n) + tail
}

// ---------------------------------------------------------------------------------------------------------------
// Nested-context matrix: every context that is printed/parsed by a nested mechanism (here-document bodies of each flavour,
// command substitutions, backquotes, process substitution, expansions with a word argument, arrays, function bodies,
// case items, subshells) filled with every multi-line / continued payload. These are the inputs that leave state behind in
// nested printers and lexer sub-states.
var NestContexts = []string{
	"cat <<-EOF\n\t%s\n\tEOF\n", "cat <<EOF\n%s\nEOF\n", "cat <<-EOF\n\ta\n\t\t%s\n\tEOF\n", "if x; then\n\tcat <<-EOF\n\t\t%s\n\tEOF\nfi\n", "cat <<-E1 <<-E2\n\t%s\n\tE1\n\t%s\n\tE2\n",
	"echo \"%s\"\n", "echo %s\n", "x=%s\n", "echo ${x:-%s}\n", "a=(%s)\n", "f() {\n\techo %s\n}\n", "case x in\na) echo %s ;;\nesac\n", "(echo %s)\n", "echo <(echo %s)\n", "cat <<-EOF | tr a b\n\t%s\n\tEOF\n",
}

var NestPayloads = []string{
	"$(a &&\n\tb)", "$(a |\n\tb)", "$(foo \\\n\tbar)", "$(if a; then\n\tb\nfi)", "$(a # c\nb)", "$({ a\nb; })", "$(case x in\na) b ;;\nesac)", "$(a\nb)", "$(a & b)", "`a &&\nb`", "$(a $(b |\n\tc))",
	"$(cat <<-IN\n\tx\n\tIN\n)", "$(a <<IN\nx\nIN\n)", "$(for i in 1; do\n\ta\ndone)", "$(f() {\n\ta\n}; f)", "$(a ||\n\tb &&\n\tc)", "$((1 +\n2))", "${x:-$(a &&\n\tb)}", "$(a)", "$x",
}

// NestedMatrix: every context filled with every payload (all slots of a context get the same payload).
func NestedMatrix() []string {
	var out []string
	for _, c := range NestContexts {
		for _, p := range NestPayloads {
			out = append(out, strings.ReplaceAll(c, "%s", p))
		}
	}
	return out
}
