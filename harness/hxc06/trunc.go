package hxc06

import (
	"sort"
	"strings"

	"mvdan.cc/sh/v3/syntax"
)

// Catalogue holds one small instance of every construct the parser knows (every node type, every clause keyword,
// every operator family, in every variant). It is part of the FIXED enumeration: every byte-prefix of every entry is
// parsed under every variant with RecoverErrors(0..3) on every run, so that "input ends in the middle of construct X
// and recovery patches it up" is always explored for every X.
var Catalogue = []string{
	"if a; then b; elif c; then d; else e; fi", "while a; do b; done", "until a; do b; done",
	"for i in a b; do c; done", "for i; do c; done", "for ((i = 0; i < 3; i++)); do c; done", "for i in a; { c; }",
	"select i in a b; do c; done",
	"case x in a) b ;; (c|d) e ;& f) g ;;& *) h ;| esac", "case x in (a) b ;; esac", "case x in\n(a|b)\n\tc\n\t;;\nesac", "case x { a) b ;; }",
	"f() { a; }", "function f { a; }", "function f() { a; }", "f() (a)", "f() a", "function a b { c; }", "() { a; } b",
	"{ a; b; }", "(a; b)", "a | b |& c", "a && b || c", "! a", "a &", "a &!", "a |& b",
	"[[ a == b && -f c || ! ( d < e ) ]]", "[[ a =~ ^(b|c)+$ ]]", "[[ -z $a ]]", "((a = b + 1, c++))", "let a=1+2 b++", "let 'a = 1'",
	"declare -a a=(b c)", "local a=b c", "export a=b", "readonly a", "typeset -i a=1", "nameref a=b",
	"coproc a { b; }", "coproc a", "time -p a", "time { a; }", "@test 'desc' { a; }",
	"a=b c=d e", "a+=b", "a=(b [1]=c [d]=e)", "a[1]=b", "a[i+1]+=b", "a=() b",
	"a >b 2>&1 <c >>d <>e >|f &>g &>>h <<<i {fd}>j", "a <<E\nb $c\nE\n", "a <<-E\n\tb\n\tE\n", "a <<'E'\nb\nE\n", "a <<E <<F\nb\nE\nc\nF\n", "a >!b >>|c &>!d",
	"echo $a ${b} ${#c} ${d:-e} ${f:=g} ${h:?i} ${j:+k} ${l#m} ${n##o} ${p%q} ${r%%s}",
	"echo ${a/b/c} ${d//e/f} ${g/#h/i} ${j/%k/l} ${m:1:2} ${n: -1} ${o^} ${p^^q} ${r,} ${s,,} ${t@Q}",
	"echo ${!a} ${!b*} ${!c@} ${!d[@]} ${e[1]} ${f[@]} ${g[*]} ${#h[@]} ${i[j+1]}",
	"echo ${%a} ${+b} ${(U)c} ${=d} ${~e} ${^f} ${${g}#h} ${i:h} ${j:t5:h2} ${k:#l} ${m[1,2]} ${n[(r)o]}",
	"echo $((a + b * (c - 1) ** 2 % 3)) $((d ? e : f)) $((g = 1, h += 2)) $((i++ + --j)) $((k[1] + l[m]))", "echo $[a+1] $((# 1))", "echo $((1.5 + a)) $((16#ff))",
	"echo $(a; b) `c | d` \"$(e \"f\")\" \"`g \\\"h\\\"`\" ${ i;} ${|j;}", "echo <(a) >(b) =(c)",
	"echo 'a' \"b $c\" $'d\\n' $\"e\" f\\ g \\\\ \"h\\\"i\"", "echo @(a|b) ?(c) *(d) +(e) !(f)", "echo {a,b} {1..3} ~ ~/x a*b [c-d]?",
	"echo <1-10> *(.) **/* a~b ^c x#", "a # c\n# d\nb", "#!/bin/sh\na", "a \\\n b", "a; b\nc\r\nd", "{}", "a | b\n", "a &&\nb", "$a $1 $@ $* $# $? $$ $! $- $0",
	"if a; then\n\tb <<E\nc\nE\nfi", "f() { a; } >b", ">a b", "a=b >c", "( (a) )", "$( (a) )", "((a)); ( (b) )", "a | ! b", "time a | b", "for ((;;)); do a; done",
	"[[ a ]] && ((b)) || { c; }", "x=$(a) y=`b` z=$((1))", "case $a in \"b\") c ;; 'd'|$e) f ;; esac", "while read -r a; do b; done <c", "a() { b; }; a",
}

// TokenBoundaries returns the byte offsets at which a node of some variant's tree of src starts or ends
// (falls back to every byte for inputs no variant parses). Sorted, unique, 0 < b < len(src).
func TokenBoundaries(src string) []int {
	set := map[int]bool{}
	parsed := false
	for _, l := range []syntax.LangVariant{syntax.LangBash, syntax.LangZsh, syntax.LangMirBSDKorn} {
		f, err := tryParse(src, l)
		if err != nil || f == nil {
			continue
		}
		parsed = true
		syntax.Walk(f, func(n syntax.Node) bool {
			if n != nil {
				for _, p := range []syntax.Pos{n.Pos(), n.End()} {
					if p.IsValid() {
						set[int(p.Offset())] = true
					}
				}
			}
			return true
		})
		break
	}
	if !parsed || len(src) <= 48 {
		for i := 1; i < len(src); i++ {
			set[i] = true
		}
	}
	var out []int
	for b := range set {
		if b > 0 && b < len(src) {
			out = append(out, b)
		}
	}
	sort.Ints(out)
	return out
}

func tryParse(src string, l syntax.LangVariant) (f *syntax.File, err error) {
	defer func() {
		if r := recover(); r != nil {
			f, err = nil, nil
		}
	}()
	return syntax.NewParser(syntax.Variant(l), syntax.KeepComments(true)).Parse(strings.NewReader(src), "")
}
