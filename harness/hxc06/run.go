package hxc06

import (
	"bytes"
	"fmt"
	"io"
	"runtime/debug"
	"strings"

	"mvdan.cc/sh/v3/syntax"
	"mvdan.cc/sh/v3/syntax/typedjson"
)

// Cfg is one parser configuration.
type Cfg struct {
	Lang    syntax.LangVariant
	Keep    bool
	StopAt  string
	Recover int
}

func (c Cfg) String() string {
	return fmt.Sprintf("%s/keep=%v/stop=%q/rec=%d", c.Lang, c.Keep, c.StopAt, c.Recover)
}

func (c Cfg) Options() []syntax.ParserOption {
	o := []syntax.ParserOption{syntax.Variant(c.Lang), syntax.KeepComments(c.Keep)}
	if c.StopAt != "" {
		o = append(o, syntax.StopAt(c.StopAt))
	}
	if c.Recover > 0 {
		o = append(o, syntax.RecoverErrors(c.Recover))
	}
	return o
}

func (c Cfg) New() *syntax.Parser { return syntax.NewParser(c.Options()...) }

var Entries = []string{"Parse", "StmtsSeq", "WordsSeq", "InteractiveSeq", "Document", "Arithmetic"}

// Result of one entry point: the nodes it handed out and the error.
type Result struct {
	Nodes []syntax.Node
	Err   error
	Panic string // non-empty: the call panicked (message + top of stack)
}

// Call runs one entry point of p on src, panic-safe.
func Call(p *syntax.Parser, entry string, src string) (res Result) {
	defer func() {
		if r := recover(); r != nil {
			res.Panic = fmt.Sprint(r) + " @ " + stackTop()
		}
	}()
	rd := strings.NewReader(src)
	switch entry {
	case "Parse":
		f, err := p.Parse(rd, "")
		if f != nil {
			res.Nodes = append(res.Nodes, f)
		}
		res.Err = err
	case "StmtsSeq":
		for s, err := range p.StmtsSeq(rd) {
			if err != nil {
				res.Err = err
			}
			if s != nil {
				res.Nodes = append(res.Nodes, s)
			}
		}
	case "WordsSeq":
		for w, err := range p.WordsSeq(rd) {
			if err != nil {
				res.Err = err
			}
			if w != nil {
				res.Nodes = append(res.Nodes, w)
			}
		}
	case "InteractiveSeq":
		n := 0
		for stmts, err := range p.InteractiveSeq(rd) {
			if err != nil {
				res.Err = err
			}
			for _, s := range stmts {
				if s != nil && n < 100000 {
					res.Nodes = append(res.Nodes, s)
					n++
				}
			}
			_ = p.Incomplete()
		}
	case "Document":
		w, err := p.Document(rd)
		if w != nil {
			res.Nodes = append(res.Nodes, w)
		}
		res.Err = err
	case "Arithmetic":
		x, err := p.Arithmetic(rd)
		if x != nil {
			res.Nodes = append(res.Nodes, x)
		}
		res.Err = err
	default:
		panic("entry " + entry)
	}
	return res
}

func stackTop() string {
	st := string(debug.Stack())
	// keep the first frames inside mvdan.cc/sh
	var out []string
	for _, l := range strings.Split(st, "\n") {
		if strings.Contains(l, "mvdan.cc/sh/v3/") && !strings.HasPrefix(l, "\t") {
			l = strings.TrimPrefix(l, "mvdan.cc/sh/v3/")
			if i := strings.LastIndex(l, "("); i > 0 {
				l = l[:i]
			}
			out = append(out, l)
			if len(out) == 3 {
				break
			}
		}
	}
	return strings.Join(out, " < ")
}

var PrinterSets = map[string][]syntax.PrinterOption{
	"default": nil,
	"minify":  {syntax.Minify(true)},
	"single":  {syntax.SingleLine(true)},
	"ind2bin": {syntax.Indent(2), syntax.BinaryNextLine(true), syntax.SwitchCaseIndent(true), syntax.SpaceRedirects(true), syntax.FunctionNextLine(true)},
	"pad":     {syntax.KeepPadding(true), syntax.Indent(4)},
}
var PrinterSetNames = []string{"default", "minify", "single", "ind2bin", "pad"}

// Post runs Print (every option set), Walk, typedjson.Encode and Simplify (last:
// it mutates) on a node; returns the stages that panicked.
func Post(n syntax.Node, sets ...string) (panics []string) {
	if len(sets) == 0 {
		sets = PrinterSetNames
	}
	try := func(stage string, f func()) {
		defer func() {
			if r := recover(); r != nil {
				panics = append(panics, stage+": "+fmt.Sprint(r)+" @ "+stackTop())
			}
		}()
		f()
	}
	for _, name := range sets {
		try("Print/"+name, func() {
			syntax.NewPrinter(PrinterSets[name]...).Print(io.Discard, n)
		})
	}
	try("Walk", func() {
		syntax.Walk(n, func(syntax.Node) bool { return true })
	})
	try("typedjson", func() {
		var b bytes.Buffer
		typedjson.Encode(&b, n)
	})
	try("Simplify", func() {
		syntax.Simplify(n)
	})
	try("Print-after-Simplify", func() {
		syntax.NewPrinter().Print(io.Discard, n)
	})
	return panics
}

// Dump renders a node as typed JSON (positions included) for equality tests and replay.
func Dump(n syntax.Node) (s string) {
	defer func() {
		if r := recover(); r != nil {
			s = "ENCODE-PANIC " + fmt.Sprint(r)
		}
	}()
	var b bytes.Buffer
	if err := typedjson.Encode(&b, n); err != nil {
		return "ENCODE-ERR " + err.Error()
	}
	return b.String()
}

func ErrStr(err error) string {
	if err == nil {
		return ""
	}
	return err.Error()
}
