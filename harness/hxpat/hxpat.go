// Package hxpat holds what the C17 and C18 harness commands share: the
// pattern/string enumerations over the metacharacter alphabet, the structured
// token generator, and panic-safe wrappers around the matchers under test.
package hxpat

import (
	"math/rand/v2"
	"regexp"
	"sort"
	"strings"

	"mvdan.cc/sh/v3/interp"
	"mvdan.cc/sh/v3/pattern"
	"verifharness/hx"
)

// Alphabet of the exhaustive short-pattern enumeration (DESIGN C17).
var Alphabet = []string{"*", "?", "[", "]", "!", "^", "-", "\\", "/", ".", "a", "b", ":", "(", "|", ")", "@", "+"}

// NumPatterns(l) = number of patterns of exactly length l.
func NumPatterns(l int) int {
	n := 1
	for i := 0; i < l; i++ {
		n *= len(Alphabet)
	}
	return n
}

// Pattern returns the idx-th pattern of length l (base-18 digits, most significant first).
func Pattern(l, idx int) string {
	b := make([]string, l)
	for i := l - 1; i >= 0; i-- {
		b[i] = Alphabet[idx%len(Alphabet)]
		idx /= len(Alphabet)
	}
	return strings.Join(b, "")
}

// Strings returns all strings of length 0..maxLen over the distinct runes of
// pat plus 'a' (plus the upper-case variants of letters when fold is set),
// alphabet capped at maxAlpha runes (extra runes first, then first occurrences). The empty string is first.
func Strings(pat string, maxLen, maxAlpha int, fold bool, extra ...rune) []string {
	return StringsOver(Alpha(pat, maxAlpha, fold, extra...), maxLen)
}

// Alpha is the test alphabet for a pattern (see Strings).
func Alpha(pat string, maxAlpha int, fold bool, extra ...rune) []rune {
	seen := map[rune]bool{}
	var alpha []rune
	add := func(r rune) {
		if !seen[r] && len(alpha) < maxAlpha {
			seen[r] = true
			alpha = append(alpha, r)
		}
	}
	for _, r := range extra {
		add(r)
	}
	// ordinary runes of the pattern first (they are what groups, sets and classes range over), then 'a',
	// then the pattern's metacharacters
	addFolded := func(r rune) {
		add(r)
		if fold && r >= 'a' && r <= 'z' {
			add(r - 32)
		}
		if fold && r >= 'A' && r <= 'Z' {
			add(r + 32)
		}
	}
	isMeta := func(r rune) bool { return strings.ContainsRune("*?[]!^-\\():|@+", r) }
	nord := 0
	for _, r := range pat {
		if !isMeta(r) && !seen[r] && nord < 3 {
			nord++
			addFolded(r)
		}
	}
	addFolded('a')
	for _, r := range pat {
		if isMeta(r) {
			add(r)
		}
	}
	for _, r := range pat {
		addFolded(r)
	}
	return alpha
}

// StringsOver enumerates all strings of length 0..maxLen over alpha: "" first, then
// by length, each level = previous level extended by every rune (the Coq side,
// CaseEval.strings_upto, enumerates in the same order).
func StringsOver(alpha []rune, maxLen int) []string {
	out := []string{""}
	prev := []string{""}
	for l := 1; l <= maxLen; l++ {
		var cur []string
		for _, p := range prev {
			for _, r := range alpha {
				cur = append(cur, p+string(r))
			}
		}
		out = append(out, cur...)
		prev = cur
	}
	return out
}

// Tokens of the structured generator: single characters and multi-character
// bracket/extglob pieces that the exhaustive enumeration cannot reach.
var Tokens = []string{"*", "?", "[", "]", "!", "^", "-", "\\", "/", ".", "a", "b", "c", "A", "0", ":", "(", "|", ")", "@", "+",
	"[:alpha:]", "[:digit:]", "[:upper:]", "[:lower:]", "[:space:]", "[:punct:]", "[:alnum:]", "[:xdigit:]", "[:word:]",
	"[a-c]", "[!a-c]", "[]a]", "[a-]", "[[:alpha:]]", "[![:digit:]]", "[[:alpha:][:digit:]]", "\\*", "\\[", "\\\\",
	"@(", "*(", "+(", "?(", "!(", "é", "**", "**/", "/.", "[a-b", "[\\]]", "[\\a]",
	// every regexp-special ASCII rune also as a literal, plus runes sorting around the metacharacters
	"$", "{", "}", "Z", "9", " ", "~", ",", "=", "#", "\\$", "\\^", "\\.", "\\(", "\\{"}

// BracketElems are the building blocks of the bracket-expression enumeration: runes sorting below, between and
// above the markers '!' (33) '-' (45) '^' (94), escapes, and class elements.
var BracketElems = []string{"-", "a", "c", "Z", "9", ".", " ", "^", "!", "]", "$", "\\]", "\\-", "\\a", "[", "[:digit:]", "/"}

// NumBrackets(l) = number of bracket patterns with l elements (3 negation forms x len(elems)^l x 2 tails).
func NumBrackets(l int) int {
	n := 6
	for i := 0; i < l; i++ {
		n *= len(BracketElems)
	}
	return n
}

// Bracket returns the idx-th bracket pattern with l elements: "[" neg e1..el "]" tail.
func Bracket(l, idx int) string {
	tail := []string{"", "x"}[idx%2]
	idx /= 2
	neg := []string{"", "!", "^"}[idx%3]
	idx /= 3
	var sb strings.Builder
	sb.WriteString("[" + neg)
	for i := 0; i < l; i++ {
		sb.WriteString(BracketElems[idx%len(BracketElems)])
		idx /= len(BracketElems)
	}
	sb.WriteString("]" + tail)
	return sb.String()
}

// ClassNames: the valid class names, every substring of them, misspellings (one rune dropped, doubled, upper-cased),
// the empty name, a space, and unrelated words. Pinned and deterministic.
func ClassNames() []string {
	valid := []string{"alnum", "alpha", "ascii", "blank", "cntrl", "digit", "graph", "lower", "print", "punct", "space", "upper", "word", "xdigit"}
	seen := map[string]bool{}
	var out []string
	add := func(n string) {
		if !seen[n] {
			seen[n] = true
			out = append(out, n)
		}
	}
	for _, v := range valid {
		add(v)
	}
	for _, n := range []string{"", " ", ":", "foo", "alpha ", " alpha", "alpha digit", "a-z", "alpha:", "ALPHA", "Alpha", "é"} {
		add(n)
	}
	for _, v := range valid {
		for i := 0; i < len(v); i++ {
			for j := i + 1; j <= len(v); j++ {
				add(v[i:j])
			}
			add(v[:i] + v[i+1:])          // rune dropped
			add(v[:i] + v[i:i+1] + v[i:]) // rune doubled
		}
		add(strings.ToUpper(v))
	}
	return out
}

// ClassPatterns wraps a class name in the two shapes used by the sweeps.
func ClassPatterns(name string) []string {
	return []string{"[[:" + name + ":]]", "[a[:" + name + ":]0-9]x"}
}

// SweepRunes: every ASCII rune except NUL and newline (the oracle files are line based), plus a few multi-byte runes.
func SweepRunes() []rune {
	var out []rune
	for c := rune(1); c < 128; c++ {
		if c != '\n' {
			out = append(out, c)
		}
	}
	return append(out, 'é', 'ß', '中', '\u212a', '😀')
}

// GenTokens draws a pattern of 1..maxTok tokens.
func GenTokens(r *rand.Rand, maxTok int) string {
	n := 1 + r.IntN(maxTok)
	var sb strings.Builder
	for i := 0; i < n; i++ {
		sb.WriteString(hx.Pick(r, Tokens))
	}
	return sb.String()
}

// MatchBits runs f on each string, panic-safe; 'P' marks a panic.
func MatchBits(f func(string) bool, strs []string) string {
	var sb strings.Builder
	for _, s := range strs {
		var m bool
		if p, _ := hx.Try(func() { m = f(s) }); p {
			sb.WriteByte('P')
		} else if m {
			sb.WriteByte('1')
		} else {
			sb.WriteByte('0')
		}
	}
	return sb.String()
}

// Res is one matcher observation.
type Res struct {
	Text string `json:"text,omitempty"` // hex of the regexp text ("" on error)
	Err  string `json:"err,omitempty"`  // error message / "PANIC:..." / "NOCOMPILE:..."
	Bits string `json:"bits"`           // one char per string: 0/1/P ; all 0 on error (interp.match semantics)
}

// ViaRegexp = pattern.Regexp + regexp.Compile + MatchString.
func ViaRegexp(pat string, mode pattern.Mode, strs []string) Res {
	var text string
	var err error
	if p, msg := hx.Try(func() { text, err = pattern.Regexp(pat, mode) }); p {
		return Res{Err: "PANIC:" + msg, Bits: strings.Repeat("P", len(strs))}
	}
	if err != nil {
		e := err.Error()
		if _, ok := err.(*pattern.NegExtGlobError); ok {
			e = "NEG:" + e
		}
		return Res{Err: e, Bits: strings.Repeat("0", len(strs))}
	}
	rx, cerr := regexp.Compile(text)
	if cerr != nil {
		return Res{Text: hx.Hex(text), Err: "NOCOMPILE:" + cerr.Error(), Bits: strings.Repeat("P", len(strs))}
	}
	return Res{Text: hx.Hex(text), Bits: MatchBits(rx.MatchString, strs)}
}

// ViaMatcher = internal.ExtendedPatternMatcher (through the verif hook), the
// function behind case clauses and [[ == ]], including the !(...) path.
func ViaMatcher(pat string, mode pattern.Mode, strs []string) Res {
	var f func(string) bool
	var err error
	if p, msg := hx.Try(func() { f, err = interp.VerifC17Matcher(pat, mode) }); p {
		return Res{Err: "PANIC:" + msg, Bits: strings.Repeat("P", len(strs))}
	}
	if err != nil || f == nil {
		e := "nil matcher"
		if err != nil {
			e = err.Error()
		}
		return Res{Err: e, Bits: strings.Repeat("0", len(strs))}
	}
	return Res{Bits: MatchBits(f, strs)}
}

// SortedKeys is a tiny helper for deterministic map iteration.
func SortedKeys[V any](m map[string]V) []string {
	ks := make([]string, 0, len(m))
	for k := range m {
		ks = append(ks, k)
	}
	sort.Strings(ks)
	return ks
}

// Runes converts a string to its rune values (valid UTF-8 expected).
func Runes(s string) []int {
	out := []int{}
	for _, r := range s {
		out = append(out, int(r))
	}
	return out
}

// RuneIndex converts a byte offset in s to a rune index.
func RuneIndex(s string, off int) int {
	if off > len(s) {
		off = len(s)
	}
	return len([]rune(s[:off]))
}

// CodeObs is what the code leg compares with the model: the outcome of
// pattern.Regexp (+ regexp.Compile) in rune terms.
type CodeObs struct {
	K      string  `json:"k"`              // ok | nocompile | eb | er | ec | neg | panic | other
	Text   []int   `json:"text,omitempty"` // runes of the regexp text
	RA     int     `json:"ra,omitempty"`
	RB     int     `json:"rb,omitempty"`
	Groups [][]int `json:"groups,omitempty"`
	Msg    string  `json:"msg,omitempty"`
}

func ObserveRegexp(pat string, mode pattern.Mode) (CodeObs, *regexp.Regexp) {
	var text string
	var err error
	if p, msg := hx.Try(func() { text, err = pattern.Regexp(pat, mode) }); p {
		return CodeObs{K: "panic", Msg: msg}, nil
	}
	if err != nil {
		msg := err.Error()
		if ne, ok := err.(*pattern.NegExtGlobError); ok {
			o := CodeObs{K: "neg"}
			for _, g := range ne.Groups {
				o.Groups = append(o.Groups, []int{RuneIndex(pat, g.Start), RuneIndex(pat, g.End)})
			}
			return o, nil
		}
		switch {
		case msg == `\ at end of pattern`:
			return CodeObs{K: "eb"}, nil
		case msg == "charClass invalid":
			return CodeObs{K: "ec"}, nil
		case strings.HasPrefix(msg, "invalid range: "):
			rs := []rune(strings.TrimPrefix(msg, "invalid range: "))
			if len(rs) == 3 && rs[1] == '-' {
				return CodeObs{K: "er", RA: int(rs[0]), RB: int(rs[2])}, nil
			}
		}
		return CodeObs{K: "other", Msg: msg}, nil
	}
	rx, cerr := regexp.Compile(text)
	if cerr != nil {
		return CodeObs{K: "nocompile", Text: Runes(text), Msg: cerr.Error()}, nil
	}
	return CodeObs{K: "ok", Text: Runes(text)}, rx
}

// RunesToString is the inverse of Runes.
func RunesToString(rs []int) string {
	var sb strings.Builder
	for _, r := range rs {
		sb.WriteRune(rune(r))
	}
	return sb.String()
}

// PathElems are the path elements of the Filenames-mode enumeration: star runs of length 1..4 alone and glued to text,
// dot names, a wildcard.
var PathElems = []string{"*", "**", "***", "****", "a", "a*", "*a", "a**", "**a", "a***", "***a", ".a", ".*", "?", "b"}

// NumPaths(l) = number of path patterns with l elements (x 4 for optional leading / trailing slash).
func NumPaths(l int) int {
	n := 4
	for i := 0; i < l; i++ {
		n *= len(PathElems)
	}
	return n
}

// PathPattern returns the idx-th path pattern with l elements.
func PathPattern(l, idx int) string {
	lead := []string{"", "/"}[idx%2]
	idx /= 2
	trail := []string{"", "/"}[idx%2]
	idx /= 2
	el := make([]string, l)
	for i := 0; i < l; i++ {
		el[i] = PathElems[idx%len(PathElems)]
		idx /= len(PathElems)
	}
	return lead + strings.Join(el, "/") + trail
}

// PathStrings: every path of up to 3 components over the names a .a b ab, with optional leading and trailing slash.
func PathStrings() []string {
	names := []string{"a", ".a", "b", "ab"}
	var out []string
	var rec func(prefix string, depth int)
	rec = func(prefix string, depth int) {
		for _, n := range names {
			p := prefix + n
			out = append(out, p, p+"/", "/"+p, "/"+p+"/")
			if depth < 3 {
				rec(p+"/", depth+1)
			}
		}
	}
	rec("", 1)
	return append(out, "", "/")
}

// CollapseStarRuns replaces every run of three or more stars by a single star (bash: only an exact ** is globstar).
func CollapseStarRuns(p string) string {
	var sb strings.Builder
	for i := 0; i < len(p); {
		if p[i] != '*' {
			sb.WriteByte(p[i])
			i++
			continue
		}
		j := i
		for j < len(p) && p[j] == '*' {
			j++
		}
		if j-i >= 3 {
			sb.WriteByte('*')
		} else {
			sb.WriteString(p[i:j])
		}
		i = j
	}
	return sb.String()
}
