// Package hxc26 is shared by the C26 and C31 harness commands: a worker
// subprocess protocol that runs one shell program at a time with the real
// interp.Runner (refusing ExecHandler, private scratch directory, context
// deadline and optional cancellation), under a per-case watchdog in the parent.
//
// Nothing under test runs in the parent: a program on which Run never returns,
// or which panics, only loses its worker, which is restarted.
package hxc26

import (
	"bufio"
	"bytes"
	"context"
	"encoding/json"
	"fmt"
	"io"
	"os"
	"os/exec"
	"strings"
	"sync"
	"syscall"
	"time"

	"mvdan.cc/sh/v3/expand"
	"mvdan.cc/sh/v3/interp"
	"mvdan.cc/sh/v3/syntax"
)

// Req is one program to run.
type Req struct {
	Src       string   `json:"src"`
	TimeoutMs int      `json:"timeout_ms"` // context deadline (0 = 5000)
	CancelMs  int      `json:"cancel_ms"`  // cancel the context after this long (<0 = never)
	Vars      []string `json:"vars"`       // variables to report after Run
	Stdin     string   `json:"stdin"`      // "null" (default: /dev/null), "pipe" (a pipe that never delivers)
	// CancelBytes > 0: cancel the context, deterministically, inside the Write call that brings
	// stdout to at least that many bytes (the next stop() of the runner sees it).
	CancelBytes int `json:"cancel_bytes"`
	HardMs      int `json:"hard_ms"` // watchdog: no return after this long = hang (0 = TimeoutMs + 8 s)
	// Pre: a program run FIRST on the same Runner (no Reset in between) with its own, never cancelled,
	// context: the Runner is reused incrementally, as an interactive shell does.
	Pre string `json:"pre"`
	// ExecKillMs: nil = every external command is refused (status 127). Otherwise external commands are
	// really started through interp.DefaultExecHandler(ExecKillMs ms) with PATH=/usr/bin:/bin. Only the
	// fixed, harmless templates of cmd/c31 (sleep) use this.
	ExecKillMs *int `json:"exec_kill_ms"`
	// Lang: "" = bash, "zsh" = syntax.LangZsh (for the &! and &| disowned jobs)
	Lang string `json:"lang"`
	// Files are written (mode 0755) into the scratch directory before Run, e.g. an executable script
	// without a #! line, which the exec handler runs with a nested interpreter (ENOEXEC).
	Files map[string]string `json:"files"`
	// CheckLate: after a cancelled Run has returned, measure whether stdout still grows.
	CheckLate bool `json:"check_late"`
}

// Resp is what the worker observed.
type Resp struct {
	Out       string            `json:"out"` // hex of stdout (capped)
	Status    int               `json:"status"`
	Err       string            `json:"err"`  // non-exit-status error text of Run ("" if none)
	Vars      map[string]string `json:"vars"` // hex values; unset variables are absent
	ParseErr  string            `json:"parse_err"`
	Panic     string            `json:"panic"`
	Hang      bool              `json:"hang"`       // Run did not return within the watchdog
	Timeout   bool              `json:"timeout"`    // the context deadline expired (program too long)
	ElapsedUs int64             `json:"elapsed_us"` // start of Run -> return
	LatencyUs int64             `json:"latency_us"` // cancel -> return (only with CancelMs >= 0 and cancel before return)
	Cancelled bool              `json:"cancelled"`  // the cancel happened before Run returned
	LateBytes int               `json:"late_bytes"` // bytes written to stdout between 100 and 300 ms AFTER Run returned (CheckLate)
}

const outCap = 1 << 16

type capWriter struct {
	mu      sync.Mutex
	buf     bytes.Buffer
	total   int
	trigger int    // cancel when total >= trigger (0 = never)
	fire    func() // called once
}

func (w *capWriter) Write(p []byte) (int, error) {
	w.mu.Lock()
	defer w.mu.Unlock()
	if room := outCap - w.buf.Len(); room > 0 {
		if len(p) > room {
			w.buf.Write(p[:room])
		} else {
			w.buf.Write(p)
		}
	}
	w.total += len(p)
	if w.trigger > 0 && w.total >= w.trigger && w.fire != nil {
		w.fire()
		w.fire = nil
	}
	return len(p), nil
}

func hexs(b []byte) string { return fmt.Sprintf("%x", b) }

// refuse is the ExecHandler: no external program is ever started.
func refuse(next interp.ExecHandlerFunc) interp.ExecHandlerFunc {
	return func(ctx context.Context, args []string) error {
		return interp.ExitStatus(127)
	}
}

// RunOne runs req in this process. hard is the watchdog inside the worker: if Run
// has not returned by then the response says Hang and the caller must exit.
func RunOne(req Req, dir string, hard time.Duration) (resp Resp) {
	defer func() {
		if r := recover(); r != nil {
			resp.Panic = fmt.Sprint(r)
		}
	}()
	lang := syntax.LangBash
	if req.Lang == "zsh" {
		lang = syntax.LangZsh
	}
	p := syntax.NewParser(syntax.Variant(lang))
	file, err := p.Parse(strings.NewReader(req.Src), "")
	if err != nil {
		resp.ParseErr = err.Error()
		return
	}
	for name, content := range req.Files {
		if strings.ContainsAny(name, "/\\") {
			continue
		}
		os.WriteFile(dir+"/"+name, []byte(content), 0o755)
	}
	out := &capWriter{}
	var stdin io.Reader
	var keep []io.Closer
	switch req.Stdin {
	case "pipe":
		pr, pw, err := os.Pipe()
		if err != nil {
			resp.Err = err.Error()
			return
		}
		keep = append(keep, pr, pw) // the write end stays open: reads block forever
		stdin = pr
	default:
		f, err := os.Open(os.DevNull)
		if err == nil {
			keep = append(keep, f)
			stdin = f
		}
	}
	defer func() {
		for _, c := range keep {
			c.Close()
		}
	}()
	path := "PATH=/nonexistent"
	handler := refuse
	if req.ExecKillMs != nil {
		path = "PATH=/usr/bin:/bin"
		kt := time.Duration(*req.ExecKillMs) * time.Millisecond
		handler = func(next interp.ExecHandlerFunc) interp.ExecHandlerFunc { return interp.DefaultExecHandler(kt) }
	}
	r, err := interp.New(
		interp.Env(expand.ListEnviron(path, "HOME="+dir, "TMPDIR="+dir)),
		interp.Dir(dir),
		interp.StdIO(stdin, out, io.Discard),
		interp.ExecHandlers(handler),
	)
	if err != nil {
		resp.Err = "new: " + err.Error()
		return
	}
	if req.Pre != "" {
		pre, err := syntax.NewParser(syntax.Variant(syntax.LangBash)).Parse(strings.NewReader(req.Pre), "")
		if err != nil {
			resp.ParseErr = "pre: " + err.Error()
			return
		}
		ctx0, cancel0 := context.WithCancel(context.Background()) // stays alive during the second Run
		defer cancel0()
		r.Run(ctx0, pre)
		out.mu.Lock()
		out.buf.Reset()
		out.total = 0
		out.mu.Unlock()
	}
	to := req.TimeoutMs
	if to <= 0 {
		to = 5000
	}
	ctx, cancel := context.WithTimeout(context.Background(), time.Duration(to)*time.Millisecond)
	defer cancel()
	type result struct {
		err   error
		panic string
		at    time.Time
	}
	done := make(chan result, 1)
	// the byte trigger must be armed BEFORE the runner goroutine starts writing
	var cancelAt time.Time
	var byteCancelAt time.Time
	byteCancelled := false
	if req.CancelBytes > 0 {
		out.trigger = req.CancelBytes
		out.fire = func() { byteCancelAt = time.Now(); byteCancelled = true; cancel() }
	}
	start := time.Now()
	go func() {
		var res result
		defer func() {
			if r := recover(); r != nil {
				res.panic = fmt.Sprint(r)
			}
			res.at = time.Now()
			done <- res
		}()
		res.err = r.Run(ctx, file)
	}()
	var cancelC <-chan time.Time
	if req.CancelMs >= 0 {
		cancelC = time.After(time.Duration(req.CancelMs) * time.Millisecond)
	}
	hardC := time.After(hard)
	var res result
loop:
	for {
		select {
		case res = <-done:
			break loop
		case <-cancelC:
			cancelAt = time.Now()
			resp.Cancelled = true
			cancel()
			cancelC = nil
		case <-hardC:
			resp.Hang = true
			resp.Out = hexs(out.buf.Bytes())
			return
		}
	}
	resp.ElapsedUs = res.at.Sub(start).Microseconds()
	if byteCancelled { // set by the runner goroutine before it sent on done
		resp.Cancelled = true
		cancelAt = byteCancelAt
	}
	if resp.Cancelled {
		resp.LatencyUs = res.at.Sub(cancelAt).Microseconds()
	}
	resp.Panic = res.panic
	if req.CheckLate && resp.Cancelled {
		time.Sleep(100 * time.Millisecond)
		out.mu.Lock()
		n1 := out.total
		out.mu.Unlock()
		time.Sleep(200 * time.Millisecond)
		out.mu.Lock()
		resp.LateBytes = out.total - n1
		out.mu.Unlock()
	}
	out.mu.Lock()
	resp.Out = hexs(out.buf.Bytes())
	out.mu.Unlock()
	if res.err != nil {
		if es, ok := res.err.(interp.ExitStatus); ok {
			resp.Status = int(es)
		} else {
			resp.Status = -1
			resp.Err = res.err.Error()
			if ctx.Err() == context.DeadlineExceeded && !resp.Cancelled {
				resp.Timeout = true
			}
		}
	}
	if res.panic == "" {
		resp.Vars = map[string]string{}
		for _, name := range req.Vars {
			if vr, ok := r.Vars[name]; ok && vr.IsSet() && vr.Kind == expand.String {
				resp.Vars[name] = hexs([]byte(vr.Str))
			}
		}
	}
	return
}

// WorkerMain is the "worker" subcommand: one JSON request per line on stdin,
// one JSON response per line on stdout. It exits when a program hangs.
func WorkerMain() {
	dir := os.Getenv("C26W_DIR") // created and removed by the parent (the parent may SIGKILL this process)
	var err error
	if dir == "" {
		dir, err = os.MkdirTemp("", "c26w")
		if err != nil {
			fmt.Fprintln(os.Stderr, err)
			os.Exit(2)
		}
		defer os.RemoveAll(dir)
	}
	in := bufio.NewReaderSize(os.Stdin, 1<<20)
	w := bufio.NewWriter(os.Stdout)
	enc := json.NewEncoder(w)
	n := 0
	for {
		line, err := in.ReadBytes('\n')
		if len(line) > 0 {
			var req Req
			if json.Unmarshal(line, &req) != nil {
				break
			}
			n++
			sub := fmt.Sprintf("%s/c%d", dir, n)
			os.Mkdir(sub, 0o755)
			hard := time.Duration(req.TimeoutMs)*time.Millisecond + 8*time.Second
			if req.TimeoutMs <= 0 {
				hard = 13 * time.Second
			}
			if req.HardMs > 0 {
				hard = time.Duration(req.HardMs) * time.Millisecond
			}
			resp := RunOne(req, sub, hard)
			enc.Encode(resp)
			w.Flush()
			if resp.Hang {
				os.RemoveAll(dir)
				syscall.Kill(0, syscall.SIGKILL) // the whole process group: this worker and any external child
				os.Exit(3)                       // goroutines of the hung Run cannot be stopped
			}
			os.RemoveAll(sub)
		}
		if err != nil {
			break
		}
	}
}

// Pool runs requests on worker subprocesses of the current binary.
type Pool struct {
	N int
}

type worker struct {
	cmd *exec.Cmd
	in  io.WriteCloser
	out *bufio.Reader
	dir string // scratch directory of the worker process, removed by kill()
}

func startWorker() (*worker, error) {
	self, err := os.Executable()
	if err != nil {
		return nil, err
	}
	wdir, err := os.MkdirTemp("", "c26w")
	if err != nil {
		return nil, err
	}
	cmd := exec.Command(self, "worker")
	cmd.Stderr = io.Discard
	cmd.Env = []string{"PATH=/nonexistent", "TMPDIR=" + os.TempDir(), "GOMAXPROCS=4", "C26W_DIR=" + wdir}
	cmd.SysProcAttr = &syscall.SysProcAttr{Setpgid: true} // so that kill() also reaps external children
	in, err := cmd.StdinPipe()
	if err != nil {
		return nil, err
	}
	outp, err := cmd.StdoutPipe()
	if err != nil {
		return nil, err
	}
	if err := cmd.Start(); err != nil {
		return nil, err
	}
	return &worker{cmd: cmd, in: in, out: bufio.NewReaderSize(outp, 1<<20), dir: wdir}, nil
}

func (w *worker) kill() {
	w.in.Close()
	syscall.Kill(-w.cmd.Process.Pid, syscall.SIGKILL)
	w.cmd.Process.Kill()
	w.cmd.Wait()
	if w.dir != "" {
		os.RemoveAll(w.dir)
	}
}

// do sends one request; the parent-side watchdog is the worker's own plus 5 s.
func (w *worker) do(req Req) (Resp, bool) {
	b, _ := json.Marshal(req)
	b = append(b, '\n')
	if _, err := w.in.Write(b); err != nil {
		return Resp{}, false
	}
	type rd struct {
		line []byte
		err  error
	}
	ch := make(chan rd, 1)
	go func() {
		line, err := w.out.ReadBytes('\n')
		ch <- rd{line, err}
	}()
	to := time.Duration(req.TimeoutMs)*time.Millisecond + 13*time.Second
	if req.TimeoutMs <= 0 {
		to = 18 * time.Second
	}
	if req.HardMs > 0 {
		to = time.Duration(req.HardMs)*time.Millisecond + 5*time.Second
	}
	select {
	case r := <-ch:
		if r.err != nil && len(r.line) == 0 {
			return Resp{}, false
		}
		var resp Resp
		if json.Unmarshal(r.line, &resp) != nil {
			return Resp{}, false
		}
		return resp, true
	case <-time.After(to):
		return Resp{Hang: true}, false
	}
}

// RunAll runs all requests (order of results = order of requests).
func (p Pool) RunAll(reqs []Req) []Resp {
	n := p.N
	if n <= 0 {
		n = 4
	}
	out := make([]Resp, len(reqs))
	var wg sync.WaitGroup
	idx := make(chan int)
	for i := 0; i < n; i++ {
		wg.Add(1)
		go func() {
			defer wg.Done()
			var w *worker
			for j := range idx {
				for attempt := 0; ; attempt++ {
					if w == nil {
						var err error
						w, err = startWorker()
						if err != nil {
							out[j] = Resp{Err: "worker: " + err.Error(), Status: -1}
							break
						}
					}
					resp, alive := w.do(reqs[j])
					if alive && !resp.Hang {
						out[j] = resp
						break
					}
					w.kill()
					w = nil
					if resp.Hang {
						resp.Status = -1
						out[j] = resp
						break
					}
					if attempt >= 1 { // the worker died twice on this case: crash of the process
						out[j] = Resp{Panic: "worker process died", Status: -1}
						break
					}
				}
			}
			if w != nil {
				w.kill()
			}
		}()
	}
	for j := range reqs {
		idx <- j
	}
	close(idx)
	wg.Wait()
	return out
}
