package hxc26

// Generator of CORE programs: exactly the language of coq/Interp/Core.v.
// Every node renders twice: as shell source (for interp and bash) and as a Coq term
// (for Interp/Flags.v and Interp/Sem.v).

import (
	"fmt"
	"math/rand/v2"
	"strings"
)

type part struct {
	kind byte // 'l' literal, 'v' "$x", 's' "$?", 'c' "$(list)"
	s    string
	l    []StmtN
}
type word []part

func lit(s string) word { return word{{kind: 'l', s: s}} }

func (w word) src() string {
	var sb strings.Builder
	for _, p := range w {
		switch p.kind {
		case 'l':
			sb.WriteString(p.s)
		case 'v':
			sb.WriteString(`"$` + p.s + `"`)
		case 's':
			sb.WriteString(`"$?"`)
		case 'c':
			sb.WriteString(`"$( ` + ListSrc(p.l, "; ") + ` )"`) // the space keeps "$((" from reading as arithmetic
		}
	}
	if sb.Len() == 0 {
		return `""`
	}
	return sb.String()
}

func cstr(s string) string { return fmt.Sprintf(`(bs "%s")`, s) }

func (w word) coq() string {
	ps := make([]string, len(w))
	for i, p := range w {
		switch p.kind {
		case 'l':
			ps[i] = "WLit " + cstr(p.s)
		case 'v':
			ps[i] = "WVar " + cstr(p.s)
		case 's':
			ps[i] = "WStatus"
		case 'c':
			ps[i] = "WSubst " + ListCoq(p.l)
		}
	}
	return "[" + strings.Join(ps, ";") + "]"
}

type node interface {
	src() string
	coq() string
}

type StmtN struct {
	neg bool
	c   node
}

func (s StmtN) Src() string {
	if s.neg {
		return "! " + s.c.src()
	}
	return s.c.src()
}
func (s StmtN) Coq() string {
	return fmt.Sprintf("Stmt %v (%s)", s.neg, s.c.coq())
}

func ListSrc(l []StmtN, sep string) string {
	ss := make([]string, len(l))
	for i, s := range l {
		ss[i] = s.Src()
	}
	return strings.Join(ss, sep)
}
func ListCoq(l []StmtN) string {
	ss := make([]string, len(l))
	for i, s := range l {
		ss[i] = s.Coq()
	}
	return "[" + strings.Join(ss, ";") + "]"
}

type assignN struct {
	x string
	w word
}

func (a assignN) src() string { return a.x + "=" + a.w.src() }
func (a assignN) coq() string { return fmt.Sprintf("CAssign %s %s", cstr(a.x), a.w.coq()) }

type callN struct{ ws []word }

func (c callN) src() string {
	ss := make([]string, len(c.ws))
	for i, w := range c.ws {
		ss[i] = w.src()
	}
	return strings.Join(ss, " ")
}
func (c callN) coq() string {
	ss := make([]string, len(c.ws)-1)
	for i, w := range c.ws[1:] {
		ss[i] = w.coq()
	}
	return fmt.Sprintf("CCall %s [%s]", c.ws[0].coq(), strings.Join(ss, ";"))
}

type blockN struct{ l []StmtN }

func (b blockN) src() string { return "{ " + ListSrc(b.l, "; ") + "; }" }
func (b blockN) coq() string { return "CBlock " + ListCoq(b.l) }

type subN struct{ l []StmtN }

func (b subN) src() string { return "( " + ListSrc(b.l, "; ") + " )" }
func (b subN) coq() string { return "CSub " + ListCoq(b.l) }

type binN struct {
	and  bool
	x, y StmtN
}

type pipeN struct{ x, y StmtN }

func (b pipeN) src() string { return b.x.Src() + " | " + b.y.Src() }
func (b pipeN) coq() string { return fmt.Sprintf("CPipe (%s) (%s)", b.x.Coq(), b.y.Coq()) }

func (b binN) src() string {
	op := " || "
	if b.and {
		op = " && "
	}
	return b.x.Src() + op + b.y.Src()
}
func (b binN) coq() string {
	k := "COr"
	if b.and {
		k = "CAnd"
	}
	return fmt.Sprintf("%s (%s) (%s)", k, b.x.Coq(), b.y.Coq())
}

type ifN struct {
	c, t []StmtN
	e    *ifN // else part: c == nil means plain else
}

func (n ifN) srcTail() string {
	s := ListSrc(n.c, "; ") + "; then " + ListSrc(n.t, "; ") + "; "
	if n.e != nil {
		if len(n.e.c) == 0 {
			s += "else " + ListSrc(n.e.t, "; ") + "; "
		} else {
			s += "elif " + n.e.srcTail()
		}
	}
	return s
}
func (n ifN) src() string { return "if " + n.srcTail() + "fi" }
func (n ifN) coq() string {
	e := "None"
	if n.e != nil {
		e = "(Some (" + n.e.coq() + "))"
	}
	return fmt.Sprintf("CIf %s %s %s", ListCoq(n.c), ListCoq(n.t), e)
}

type whileN struct {
	until bool
	c, b  []StmtN
}

func (n whileN) src() string {
	k := "while "
	if n.until {
		k = "until "
	}
	return k + ListSrc(n.c, "; ") + "; do " + ListSrc(n.b, "; ") + "; done"
}
func (n whileN) coq() string {
	return fmt.Sprintf("CWhile %v %s %s", n.until, ListCoq(n.c), ListCoq(n.b))
}

type forN struct {
	x     string
	items []word
	b     []StmtN
}

func (n forN) src() string {
	ss := make([]string, len(n.items))
	for i, w := range n.items {
		ss[i] = " " + w.src()
	}
	return "for " + n.x + " in" + strings.Join(ss, "") + "; do " + ListSrc(n.b, "; ") + "; done"
}
func (n forN) coq() string {
	ss := make([]string, len(n.items))
	for i, w := range n.items {
		ss[i] = w.coq()
	}
	return fmt.Sprintf("CFor %s [%s] %s", cstr(n.x), strings.Join(ss, ";"), ListCoq(n.b))
}

type patN struct {
	any bool
	w   word
}
type caseItem struct {
	pats []patN
	l    []StmtN
}
type caseN struct {
	w     word
	items []caseItem
}

func (n caseN) src() string {
	var sb strings.Builder
	sb.WriteString("case " + n.w.src() + " in ")
	for _, it := range n.items {
		ps := make([]string, len(it.pats))
		for i, p := range it.pats {
			if p.any {
				ps[i] = "*"
			} else {
				ps[i] = p.w.src()
			}
		}
		sb.WriteString(strings.Join(ps, "|") + ") " + ListSrc(it.l, "; ") + " ;; ")
	}
	sb.WriteString("esac")
	return sb.String()
}
func (n caseN) coq() string {
	its := make([]string, len(n.items))
	for i, it := range n.items {
		ps := make([]string, len(it.pats))
		for j, p := range it.pats {
			if p.any {
				ps[j] = "PAny"
			} else {
				ps[j] = "PWord " + p.w.coq()
			}
		}
		its[i] = "([" + strings.Join(ps, ";") + "]," + ListCoq(it.l) + ")"
	}
	return fmt.Sprintf("CCase %s [%s]", n.w.coq(), strings.Join(its, ";"))
}

type funcN struct {
	name string
	body StmtN
}

func (n funcN) src() string { return n.name + "() " + n.body.Src() }
func (n funcN) coq() string { return fmt.Sprintf("CFunc %s (%s)", cstr(n.name), n.body.Coq()) }

// ---------------------------------------------------------------------------------

type Gen struct {
	R          *rand.Rand
	loopVar    int  // fresh guard variables for while loops
	inFunc     int  // index of the function being defined (0 = none): it may call only higher ones
	inLoop     int  // syntactic loop depth (only to bias break/continue)
	budget     int  // remaining nodes
	errexit    bool // bias towards set -e programs
	ign        int  // syntactically inside a context where errexit is ignored (condition, !, left of && ||)
	substDepth int
	inCond     int  // inside the condition list of an if/while/until (no break/continue there)
	canRet     bool // syntactically inside a function body and not inside a subshell of it
	Odd        bool // allow the constructs of the known classes (break 0, return outside function, ...)
}

var varNames = []string{"x", "y", "z", "v"}
var funcNames = []string{"f", "g", "h"}
var lits = []string{"a", "b", "c", "0", "1", "2", "3", "ab", "7", "10", "255", "256"}

func (g *Gen) pick(l []string) string { return l[g.R.IntN(len(l))] }

// a command substitution: a short list run in a subshell (no break/return reaches out of it)
func (g *Gen) subst() part {
	g.substDepth++
	save, saveR, saveC := g.inLoop, g.canRet, g.inCond
	g.inLoop, g.canRet, g.inCond = 0, false, 0
	var l []StmtN
	switch g.R.IntN(4) {
	case 0: // output ending in several newlines
		l = []StmtN{{false, callN{[]word{lit("echo"), g.word()}}}, call("echo"), call("echo")}
	case 1: // a status without output
		l = []StmtN{g.atom()}
	default:
		l = g.list(1, 2)
	}
	for i := range l { // (a negated statement directly in a subshell: core_ANegatedInSubshell)
		if !g.Odd {
			l[i].neg = false
		}
	}
	g.inLoop, g.canRet, g.inCond = save, saveR, saveC
	g.substDepth--
	return part{kind: 'c', l: l}
}

func (g *Gen) word() word {
	if g.substDepth < 2 && g.budget > 0 && g.R.IntN(9) == 0 {
		g.budget -= 2
		if g.R.IntN(2) == 0 {
			return word{g.subst()}
		}
		return word{{kind: 'l', s: g.pick(lits)}, g.subst()}
	}
	switch g.R.IntN(10) {
	case 0, 1, 2, 3:
		return lit(g.pick(lits))
	case 4, 5, 6:
		return word{{kind: 'v', s: g.pick(varNames)}}
	case 7:
		return word{{kind: 's', s: ""}}
	case 8:
		return word{{kind: 'l', s: g.pick(lits)}, {kind: 'v', s: g.pick(varNames)}}
	default:
		return word{{kind: 'v', s: g.pick(varNames)}, {kind: 'l', s: g.pick(lits)}}
	}
}

func (g *Gen) simple() node {
	switch k := g.R.IntN(100); {
	case k < 30:
		n := 1 + g.R.IntN(3)
		ws := []word{lit("echo")}
		for i := 0; i < n; i++ {
			ws = append(ws, g.word())
		}
		return callN{ws}
	case k < 40:
		return assignN{g.pick(varNames), g.word()}
	case k < 48:
		return callN{[]word{lit("true")}}
	case k < 58:
		return callN{[]word{lit("false")}}
	case k < 60:
		return callN{[]word{lit(":")}}
	case k < 68: // break / continue
		name := "break"
		if g.R.IntN(2) == 0 {
			name = "continue"
		}
		if g.inLoop == 0 && g.R.IntN(4) != 0 || g.inCond > 0 {
			return callN{[]word{lit("false")}}
		}
		switch g.R.IntN(6) {
		case 0, 1, 2:
			return callN{[]word{lit(name)}}
		case 3:
			return callN{[]word{lit(name), lit("1")}}
		case 4:
			return callN{[]word{lit(name), lit("2")}}
		default:
			if g.Odd {
				return callN{[]word{lit(name), lit(g.pick([]string{"0", "3", "a", "99999999999999999999"}))}}
			}
			return callN{[]word{lit(name), lit("3")}}
		}
	case k < 76: // return
		if !g.canRet && !(g.Odd && g.R.IntN(3) == 0) {
			return callN{[]word{lit("true")}}
		}
		if g.R.IntN(3) == 0 {
			return callN{[]word{lit("return")}}
		}
		return callN{[]word{lit("return"), lit(g.pick([]string{"0", "1", "3", "255", "256", "0"}))}}
	case k < 81: // exit
		if g.R.IntN(3) == 0 {
			return callN{[]word{lit("exit")}}
		}
		return callN{[]word{lit("exit"), lit(g.pick([]string{"0", "1", "4", "300"}))}}
	case k < 86:
		if g.ign > 0 && !g.Odd {
			return callN{[]word{lit("false")}}
		}
		switch g.R.IntN(6) {
		case 0:
			return callN{[]word{lit("set"), lit("-o"), lit("pipefail")}}
		case 1:
			return callN{[]word{lit("set"), lit("+o"), lit("pipefail")}}
		case 2, 3:
			return callN{[]word{lit("set"), lit("+e")}}
		}
		return callN{[]word{lit("set"), lit("-e")}}
	case k < 96: // function call (only functions with a higher index: no recursion)
		lo := g.inFunc
		if lo >= len(funcNames) {
			return callN{[]word{lit("false")}}
		}
		return callN{[]word{lit(funcNames[lo+g.R.IntN(len(funcNames)-lo)])}}
	case k < 98:
		return callN{[]word{lit("nosuch"), g.word()}}
	default:
		return callN{[]word{word{{kind: 'v', s: g.pick(varNames)}}}} // command name from a variable
	}
}

func (g *Gen) list(depth, max int) []StmtN {
	n := 1 + g.R.IntN(max)
	l := make([]StmtN, 0, n)
	for i := 0; i < n; i++ {
		l = append(l, g.stmt(depth))
	}
	return l
}

func (g *Gen) condList(depth, max int) []StmtN {
	g.inCond++
	g.ign++
	l := g.list(depth, max)
	g.inCond--
	g.ign--
	return l
}

func (g *Gen) stmt(depth int) StmtN {
	neg := g.R.IntN(9) == 0
	if neg {
		g.ign++
	}
	c := g.cmd(depth)
	if neg {
		g.ign--
	}
	if _, isBin := c.(binN); isBin && neg {
		c = blockN{[]StmtN{{false, c}}}
	}
	return StmtN{neg, c}
}

// operand of && ||: a statement that prints unambiguously
func (g *Gen) operand(depth int, left bool) StmtN {
	if left {
		g.ign++
	}
	s := g.stmt(depth)
	if left {
		g.ign--
	}
	if _, isBin := s.c.(binN); isBin && !left {
		s = StmtN{false, blockN{[]StmtN{s}}}
	}
	// `f() { ..; } && x`: the interpreter's parser puts `&& x` inside the function body, bash does not
	// (known finding funcdecl_followed_by_andor); only the "odd" programs keep that shape.
	if _, isFn := s.c.(funcN); isFn {
		s = StmtN{false, blockN{[]StmtN{s}}}
	}
	return s
}

// a stage of a pipeline: not negated, and an && || list or a function declaration goes into braces.
// The last stage runs in the parent shell in the interpreter (known finding pipeline_last_stage_in_parent):
// most of the time it is given no lasting effect.
func (g *Gen) stage(depth int, first bool) StmtN {
	var s StmtN
	if !first && !g.Odd && g.R.IntN(4) != 0 {
		switch g.R.IntN(4) {
		case 0:
			s = StmtN{false, callN{[]word{lit("echo"), g.word()}}}
		case 1:
			s = g.atom()
		case 2:
			save, saveR := g.inLoop, g.canRet
			g.inLoop, g.canRet = 0, false
			l := g.list(depth, 2)
			for i := range l {
				l[i].neg = false
			}
			s = StmtN{false, subN{l}}
			g.inLoop, g.canRet = save, saveR
		default:
			s = StmtN{false, blockN{[]StmtN{g.atom(), {false, callN{[]word{lit("echo"), g.word()}}}}}}
		}
	} else {
		save, saveR := g.inLoop, g.canRet
		if first {
			g.inLoop, g.canRet = 0, false
		}
		s = g.stmt(depth)
		g.inLoop, g.canRet = save, saveR
	}
	s.neg = false
	switch s.c.(type) {
	case binN, funcN:
		s = StmtN{false, blockN{[]StmtN{s}}}
	case pipeN:
		if !first {
			s = StmtN{false, blockN{[]StmtN{s}}}
		}
	}
	return s
}

func (g *Gen) cmd(depth int) node {
	g.budget--
	if depth <= 0 || g.budget <= 0 {
		return g.simple()
	}
	switch k := g.R.IntN(100); {
	case k < 38:
		return g.simple()
	case k < 44:
		return blockN{g.list(depth-1, 3)}
	case k < 50:
		save, saveR := g.inLoop, g.canRet
		g.inLoop, g.canRet = 0, false
		l := g.list(depth-1, 3)
		g.inLoop, g.canRet = save, saveR
		if !g.Odd { // (a negated statement directly in a subshell: known finding core_ANegatedInSubshell)
			for i := range l {
				l[i].neg = false
			}
		}
		return subN{l}
	case k < 56:
		return binN{g.R.IntN(2) == 0, g.operand(depth-1, true), g.operand(depth-1, false)}
	case k < 60:
		return pipeN{g.stage(depth-1, true), g.stage(depth-1, false)}
	case k < 70:
		n := ifN{c: g.condList(depth-1, 2), t: g.list(depth-1, 2)}
		cur := &n
		for g.R.IntN(3) == 0 && depth > 1 {
			e := &ifN{c: g.condList(depth-1, 1), t: g.list(depth-1, 2)}
			cur.e = e
			cur = e
		}
		if g.R.IntN(2) == 0 {
			cur.e = &ifN{t: g.list(depth-1, 2)}
		}
		return n
	case k < 77:
		// while/until with a unary guard so that it terminates:
		//   wN=; while case "$wN" in aaa) false;; *) COND;; esac; do wN="$wN"a; BODY; done
		g.loopVar++
		wv := fmt.Sprintf("w%d", g.loopVar)
		until := g.R.IntN(3) == 0
		stopc, goc := "false", "true"
		if until {
			stopc, goc = "true", "false"
		}
		var condTail []StmtN
		if g.R.IntN(2) == 0 {
			condTail = g.condList(depth-1, 1)
		} else {
			condTail = []StmtN{{false, callN{[]word{lit(goc)}}}}
		}
		limit := strings.Repeat("a", 1+g.R.IntN(3))
		guard := StmtN{false, caseN{word{{kind: 'v', s: wv}}, []caseItem{
			{[]patN{{w: lit(limit)}}, []StmtN{{false, callN{[]word{lit(stopc)}}}}},
			{[]patN{{any: true}}, condTail},
		}}}
		g.inLoop++
		body := append([]StmtN{{false, assignN{wv, word{{kind: 'v', s: wv}, {kind: 'l', s: "a"}}}}}, g.list(depth-1, 3)...)
		g.inLoop--
		loop := whileN{until, []StmtN{guard}, body}
		return blockN{[]StmtN{{false, assignN{wv, word{}}}, {false, loop}}}
	case k < 86:
		n := g.R.IntN(4)
		items := make([]word, n)
		for i := range items {
			items[i] = g.word()
		}
		g.inLoop++
		b := g.list(depth-1, 3)
		g.inLoop--
		return forN{g.pick([]string{"i", "j", "x"}), items, b}
	case k < 93:
		n := 1 + g.R.IntN(3)
		items := make([]caseItem, n)
		for i := range items {
			np := 1 + g.R.IntN(2)
			pats := make([]patN, np)
			for j := range pats {
				if g.R.IntN(5) == 0 {
					pats[j] = patN{any: true}
				} else {
					g.substDepth += 9 // no command substitution in patterns (outside the model)
					pats[j] = patN{w: g.word()}
					g.substDepth -= 9
				}
			}
			var l []StmtN
			if g.R.IntN(8) != 0 {
				l = g.list(depth-1, 2)
			}
			items[i] = caseItem{pats, l}
		}
		return caseN{g.word(), items}
	default:
		if g.inFunc >= len(funcNames) {
			return g.simple()
		}
		// define function number inFunc+1.. (it may only call higher-numbered ones)
		idx := g.inFunc + g.R.IntN(len(funcNames)-g.inFunc)
		save, saveL, saveR, saveC := g.inFunc, g.inLoop, g.canRet, g.inCond
		g.inFunc, g.inLoop, g.canRet, g.inCond = idx+1, 0, true, 0
		var body node
		if g.R.IntN(6) == 0 {
			g.canRet = false
			body = subN{g.list(depth-1, 3)}
		} else {
			body = blockN{g.list(depth-1, 3)}
		}
		g.inFunc, g.inLoop, g.canRet, g.inCond = save, saveL, saveR, saveC
		return funcN{funcNames[idx], StmtN{false, body}}
	}
}

func call(ws ...string) StmtN {
	l := make([]word, len(ws))
	for i, w := range ws {
		l[i] = lit(w)
	}
	return StmtN{false, callN{l}}
}

// a short command that fails, succeeds, or prints (used inside the scenarios)
func (g *Gen) atom() StmtN {
	switch g.R.IntN(6) {
	case 0, 1:
		return call("false")
	case 2:
		return call("true")
	case 3:
		return StmtN{false, callN{[]word{lit("echo"), g.word()}}}
	case 4:
		return StmtN{true, callN{[]word{lit("true")}}}
	default:
		return StmtN{false, callN{[]word{lit("echo"), {{kind: 's', s: ""}}}}}
	}
}

// scenarioErrexitFunc: errexit with functions whose bodies have if/elif conditions that fail and
// && || chains; the function is called plainly, in a condition, negated and in a chain.
//
//	set -e; f() { if C; then A; elif C; then A; fi; A && A; A || A; echo tail; }; f ...
func (g *Gen) scenarioErrexitFunc() []StmtN {
	name := funcNames[g.R.IntN(len(funcNames))]
	cond := func() []StmtN {
		n := 1 + g.R.IntN(2)
		l := make([]StmtN, n)
		for i := range l {
			l[i] = g.atom()
		}
		if g.R.IntN(2) == 0 {
			l[0] = call("false")
		}
		return l
	}
	var body []StmtN
	nIf := 1 + g.R.IntN(2)
	for i := 0; i < nIf; i++ {
		n := ifN{c: cond(), t: []StmtN{g.atom()}}
		if g.R.IntN(2) == 0 {
			n.e = &ifN{c: cond(), t: []StmtN{g.atom()}}
			if g.R.IntN(2) == 0 {
				n.e.e = &ifN{t: []StmtN{g.atom()}}
			}
		} else if g.R.IntN(2) == 0 {
			n.e = &ifN{t: []StmtN{g.atom()}}
		}
		body = append(body, StmtN{false, n})
		if g.R.IntN(2) == 0 {
			body = append(body, StmtN{false, binN{g.R.IntN(2) == 0, g.atom(), g.atom()}})
		}
	}
	if g.R.IntN(3) == 0 {
		body = append(body, StmtN{false, binN{false, StmtN{false, binN{true, g.atom(), g.atom()}}, g.atom()}})
	}
	body = append(body, StmtN{false, callN{[]word{lit("echo"), lit("tail"), {{kind: 's', s: ""}}}}})
	if g.R.IntN(3) == 0 {
		body = append(body, call("return", g.pick([]string{"0", "1", "3"})))
	}
	l := []StmtN{call("set", "-e"), {false, funcN{name, StmtN{false, blockN{body}}}}}
	switch g.R.IntN(5) {
	case 0:
		l = append(l, StmtN{false, ifN{c: []StmtN{call(name)}, t: []StmtN{call("echo", "y")}, e: &ifN{t: []StmtN{call("echo", "n")}}}})
	case 1:
		l = append(l, StmtN{true, callN{[]word{lit(name)}}})
	case 2:
		l = append(l, StmtN{false, binN{false, call(name), call("echo", "c")}})
	default:
		l = append(l, call(name))
	}
	l = append(l, StmtN{false, callN{[]word{lit("echo"), lit("end"), {{kind: 's', s: ""}}}}})
	return l
}

// scenarioDeepLoops: loop nests of depth 3..4 with break/continue 1..4 at the innermost levels,
// sometimes inside a nested block or if branch, with markers after every loop.
func (g *Gen) scenarioDeepLoops() []StmtN {
	depth := 3 + g.R.IntN(2)
	vars := []string{"i", "j", "x", "y"}
	var build func(d int) []StmtN
	build = func(d int) []StmtN {
		ctl := func() StmtN {
			name := "break"
			if g.R.IntN(3) == 0 {
				name = "continue"
			}
			c := call(name, g.pick([]string{"2", "3", "3", "2", "4", "1"}))
			switch g.R.IntN(4) {
			case 0:
				return StmtN{false, blockN{[]StmtN{c, call("echo", "no")}}}
			case 1:
				return StmtN{false, ifN{c: []StmtN{StmtN{false, caseN{word{{kind: 'v', s: vars[d-1]}}, []caseItem{
					{[]patN{{w: lit("a")}}, []StmtN{call("true")}}, {[]patN{{any: true}}, []StmtN{call("false")}}}}}},
					t: []StmtN{c, call("echo", "no")}}}
			default:
				return c
			}
		}
		mark := StmtN{false, callN{[]word{lit("echo"), lit(fmt.Sprintf("L%d", d)), {{kind: 'v', s: vars[d-1]}}}}}
		var body []StmtN
		if d == depth {
			body = []StmtN{mark, ctl(), call("echo", "after")}
		} else {
			body = append([]StmtN{mark}, build(d+1)...)
			if d >= depth-1 && g.R.IntN(2) == 0 {
				body = append(body, ctl())
			}
			body = append(body, StmtN{false, callN{[]word{lit("echo"), lit(fmt.Sprintf("E%d", d)), {{kind: 's', s: ""}}}}})
		}
		items := []word{lit("a"), lit("b")}
		if g.R.IntN(3) == 0 {
			items = append(items, lit("c"))
		}
		return []StmtN{{false, forN{vars[d-1], items, body}}}
	}
	l := build(1)
	l = append(l, StmtN{false, callN{[]word{lit("echo"), lit("end"), {{kind: 's', s: ""}}}}})
	return l
}

// scenarioErrexitCompound: under errexit, EVERY kind of compound command (case, if, for, while, until,
// { }, ( )) whose last inner command is a failing && || list, a negated command, or a plain failure,
// followed by a marker; top level or inside a function.
func (g *Gen) scenarioErrexitCompound() []StmtN {
	tail := func() []StmtN {
		var last StmtN
		switch g.R.IntN(5) {
		case 0, 1:
			last = StmtN{false, binN{true, call("false"), call("true")}} // false && true
		case 2:
			last = StmtN{false, binN{false, StmtN{false, binN{true, call("true"), call("false")}}, call("false")}}
		case 3:
			last = StmtN{true, callN{[]word{lit("true")}}} // ! true
		default:
			last = StmtN{false, binN{true, g.atom(), g.atom()}}
		}
		if g.R.IntN(2) == 0 {
			return []StmtN{g.atom2(), last}
		}
		return []StmtN{last}
	}
	mk := func(kind int) StmtN {
		switch kind {
		case 0:
			return StmtN{false, caseN{lit("x"), []caseItem{{[]patN{{w: lit("y")}}, []StmtN{call("echo", "no")}}, {[]patN{{w: lit("x")}, {any: true}}, tail()}}}}
		case 1:
			return StmtN{false, ifN{c: []StmtN{call("true")}, t: tail()}}
		case 2:
			return StmtN{false, ifN{c: []StmtN{call("false")}, t: []StmtN{call("echo", "no")}, e: &ifN{t: tail()}}}
		case 3:
			return StmtN{false, forN{"i", []word{lit("a"), lit("b")}, tail()}}
		case 4:
			g.loopVar++
			wv := fmt.Sprintf("w%d", g.loopVar)
			guard := StmtN{false, caseN{word{{kind: 'v', s: wv}}, []caseItem{{[]patN{{w: lit("a")}}, []StmtN{call("false")}}, {[]patN{{any: true}}, []StmtN{call("true")}}}}}
			body := append([]StmtN{{false, assignN{wv, word{{kind: 'v', s: wv}, {kind: 'l', s: "a"}}}}}, tail()...)
			return StmtN{false, blockN{[]StmtN{{false, assignN{wv, word{}}}, {false, whileN{false, []StmtN{guard}, body}}}}}
		case 5:
			return StmtN{false, blockN{tail()}}
		default:
			return StmtN{false, subN{[]StmtN{call("echo", "in"), {false, binN{true, call("false"), call("true")}}}}}
		}
	}
	l := []StmtN{call("set", "-e")}
	var body []StmtN
	n := 1 + g.R.IntN(3)
	first := g.R.IntN(7)
	for i := 0; i < n; i++ {
		k := (first + i*3) % 7
		body = append(body, mk(k), StmtN{false, callN{[]word{lit("echo"), lit(fmt.Sprintf("here%d", k)), {{kind: 's', s: ""}}}}})
	}
	if g.R.IntN(3) == 0 {
		name := funcNames[g.R.IntN(len(funcNames))]
		l = append(l, StmtN{false, funcN{name, StmtN{false, blockN{body}}}}, call(name))
	} else {
		l = append(l, body...)
	}
	l = append(l, StmtN{false, callN{[]word{lit("echo"), lit("end"), {{kind: 's', s: ""}}}}})
	return l
}

// like atom but never a plain failure (so that errexit does not end the scenario before its point)
func (g *Gen) atom2() StmtN {
	switch g.R.IntN(3) {
	case 0:
		return call("true")
	case 1:
		return StmtN{false, callN{[]word{lit("echo"), g.word()}}}
	default:
		return StmtN{false, binN{false, call("false"), call("true")}}
	}
}

func (g *Gen) Program() []StmtN {
	g.loopVar = 0
	g.budget = 14 + g.R.IntN(30)
	g.errexit = g.R.IntN(3) == 0
	var l []StmtN
	// a seventh of the programs each: the three targeted scenarios, followed by a few free statements
	switch g.R.IntN(7) {
	case 2:
		l = g.scenarioErrexitCompound()
		for i := g.R.IntN(2); i > 0; i-- {
			l = append(l, g.stmt(2))
		}
		return l
	case 0:
		l = g.scenarioErrexitFunc()
		for i := g.R.IntN(3); i > 0; i-- {
			l = append(l, g.stmt(2))
		}
		return l
	case 1:
		l = g.scenarioDeepLoops()
		for i := g.R.IntN(3); i > 0; i-- {
			l = append(l, g.stmt(2))
		}
		return l
	}
	if g.errexit {
		l = append(l, StmtN{false, callN{[]word{lit("set"), lit("-e")}}})
	}
	n := 2 + g.R.IntN(6)
	for i := 0; i < n; i++ {
		l = append(l, g.stmt(3))
	}
	return l
}

// all variable names a core program can touch (reported by the worker)
func CoreVars() []string {
	vs := append([]string{}, varNames...)
	vs = append(vs, "i", "j")
	for i := 1; i <= 12; i++ {
		vs = append(vs, fmt.Sprintf("w%d", i))
	}
	return vs
}
