// Package hx holds what every per-property harness command shares: the seeded
// PRNG, hex/JSON output, panic capture, and command-line conventions.
//
// Conventions: every command is `<bin> <mode> [-seed N] [-n N] [-in FILE]`,
// prints one JSON object per line on stdout (one per case), and a final line
// {"summary":{...}}. All random choices derive from one PCG seeded by -seed.
package hx

import (
	"bufio"
	"encoding/hex"
	"encoding/json"
	"flag"
	"fmt"
	"math/rand/v2"
	"os"
)

type Opts struct {
	Mode string
	Seed uint64
	N    int
	In   string
	Tier string
	Args []string
}

func ParseArgs() Opts {
	if len(os.Args) < 2 {
		fmt.Fprintln(os.Stderr, "usage: <bin> <mode> [-seed N] [-n N] [-in FILE] [-tier quick|thorough]")
		os.Exit(2)
	}
	o := Opts{Mode: os.Args[1]}
	fs := flag.NewFlagSet(o.Mode, flag.ExitOnError)
	fs.Uint64Var(&o.Seed, "seed", 1, "PRNG seed")
	fs.IntVar(&o.N, "n", 1000, "number of cases")
	fs.StringVar(&o.In, "in", "", "input file")
	fs.StringVar(&o.Tier, "tier", "quick", "tier")
	fs.Parse(os.Args[2:])
	o.Args = fs.Args()
	return o
}

func Rand(seed uint64, stream uint64) *rand.Rand {
	return rand.New(rand.NewPCG(seed, stream))
}

func Hex(s string) string { return hex.EncodeToString([]byte(s)) }

func UnHex(s string) string {
	b, err := hex.DecodeString(s)
	if err != nil {
		panic(err)
	}
	return string(b)
}

func HexList(l []string) []string {
	out := make([]string, len(l))
	for i, s := range l {
		out[i] = Hex(s)
	}
	return out
}

var out = bufio.NewWriterSize(os.Stdout, 1<<20)

func Emit(v any) {
	b, err := json.Marshal(v)
	if err != nil {
		panic(err)
	}
	out.Write(b)
	out.WriteByte('\n')
}

func Flush() { out.Flush() }

// Try runs f and reports whether it panicked (with the panic value as text).
func Try(f func()) (panicked bool, msg string) {
	defer func() {
		if r := recover(); r != nil {
			panicked = true
			msg = fmt.Sprint(r)
		}
	}()
	f()
	return false, ""
}

// Pick returns a random element.
func Pick[T any](r *rand.Rand, l []T) T { return l[r.IntN(len(l))] }
