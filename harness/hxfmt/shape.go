package hxfmt

import (
	"reflect"
	"strconv"
	"strings"
	"unicode"

	"mvdan.cc/sh/v3/syntax"
)

// Shape renders the structural normal form of a syntax tree as a string:
// C01's "same syntax tree, ignoring ..." clause made explicit. Two trees are
// the same for C01 iff their shapes are equal. Ignored, and nothing else:
//
//   - positions (every syntax.Pos field; the *validity* of WordIter.InPos,
//     IfClause.ThenPos and ParamExp.Dollar is structure - `for i` vs `for i in`,
//     elif vs else, `$a[1]` vs naked `a[1]` - and is kept);
//   - comments (every []Comment field);
//   - backquotes -> $( )            (CmdSubst.Backquotes)
//   - $[ ] -> $(( ))                (ArithmExp.Bracket)
//   - brace-style for -> do/done    (ForClause.Braces)
//   - ${x} -> $x under Minify       (ParamExp.Short of a simple expansion, only when minify)
//   - escaped newlines              (removed from Lit values; the Lit parts they
//     separated are merged, empty Lits dropped)
//   - <<- tab indentation           (leading tabs of each line of a <<- body)
//   - a doubled trailing backslash  (a Lit ending in an odd run of backslashes gets one more)
func Shape(n syntax.Node, minify bool) string {
	s := shaper{minify: minify}
	s.val(reflect.ValueOf(n))
	return s.sb.String()
}

type shaper struct {
	sb     strings.Builder
	minify bool
}

var (
	posType      = reflect.TypeOf(syntax.Pos{})
	commentsType = reflect.TypeOf([]syntax.Comment(nil))
)

// NormLit removes escaped newlines (escape-aware scan) and pads an odd trailing backslash run.
func NormLit(v string) string {
	if !strings.Contains(v, "\\") {
		return v
	}
	var sb strings.Builder
	for i := 0; i < len(v); i++ {
		if v[i] == '\\' && i+1 < len(v) {
			if v[i+1] == '\n' {
				i++
				continue
			}
			sb.WriteByte(v[i])
			sb.WriteByte(v[i+1])
			i++
			continue
		}
		sb.WriteByte(v[i])
	}
	out := sb.String()
	if n := len(out) - len(strings.TrimRight(out, `\`)); n%2 == 1 {
		out += `\`
	}
	return out
}

// normParts: Lit values normalised, adjacent Lits merged, empty Lits dropped.
// Returns a list of either string (merged literal) or syntax.WordPart.
func normParts(parts []syntax.WordPart, stripTabs bool) []any {
	var out []any
	lineStart := true
	for _, p := range parts {
		if l, ok := p.(*syntax.Lit); ok {
			v := l.Value
			if stripTabs {
				var sb strings.Builder
				for i := 0; i < len(v); i++ {
					if lineStart && v[i] == '\t' {
						continue
					}
					lineStart = v[i] == '\n'
					sb.WriteByte(v[i])
				}
				v = sb.String()
			}
			if n := len(out); n > 0 {
				if prev, ok := out[n-1].(string); ok {
					out[n-1] = prev + v
					continue
				}
			}
			out = append(out, v)
			continue
		}
		lineStart = false
		out = append(out, p)
	}
	res := out[:0]
	for _, x := range out {
		if s, ok := x.(string); ok {
			s = NormLit(s)
			if s == "" {
				continue
			}
			x = s
		}
		res = append(res, x)
	}
	return res
}

func (s *shaper) parts(parts []syntax.WordPart, stripTabs bool) {
	s.sb.WriteByte('[')
	for _, x := range normParts(parts, stripTabs) {
		if str, ok := x.(string); ok {
			s.sb.WriteString("L")
			s.sb.WriteString(strconv.Quote(str))
		} else {
			s.val(reflect.ValueOf(x))
		}
		s.sb.WriteByte(' ')
	}
	s.sb.WriteByte(']')
}

// IsSimpleParam mirrors ParamExp.simple() (unexported) with exported fields.
func IsSimpleParam(p *syntax.ParamExp) bool {
	return p.Param != nil && p.Flags == nil &&
		!p.Excl && !p.Length && !p.Width && !p.IsSet &&
		p.Split == syntax.OptUnset && p.GlobSubst == syntax.OptUnset && p.RcExpand == syntax.OptUnset &&
		p.NestedParam == nil && p.Index == nil &&
		len(p.Modifiers) == 0 && p.Slice == nil &&
		p.Repl == nil && p.Names == 0 && p.Exp == nil
}

func (s *shaper) val(v reflect.Value) {
	if !v.IsValid() {
		s.sb.WriteString("nil")
		return
	}
	switch v.Kind() {
	case reflect.Interface, reflect.Ptr:
		if v.IsNil() {
			s.sb.WriteString("nil")
			return
		}
		if v.Kind() == reflect.Ptr {
			switch x := v.Interface().(type) {
			case *syntax.Word:
				s.sb.WriteString("W")
				s.parts(x.Parts, false)
				return
			case *syntax.Lit:
				s.sb.WriteString("L")
				s.sb.WriteString(strconv.Quote(NormLit(x.Value)))
				return
			case *syntax.DblQuoted:
				if x.Dollar {
					s.sb.WriteString("$")
				}
				s.sb.WriteString("DQ")
				s.parts(x.Parts, false)
				return
			case *syntax.Redirect:
				s.sb.WriteString("Redir{")
				s.sb.WriteString(x.Op.String())
				s.sb.WriteString(" N=")
				s.val(reflect.ValueOf(x.N))
				s.sb.WriteString(" W=")
				s.val(reflect.ValueOf(x.Word))
				s.sb.WriteString(" H=")
				// an absent body and an empty one (e.g. a <<- body that was only the
				// delimiter's tab indentation) are the same: no lines
				if x.Hdoc == nil || len(normParts(x.Hdoc.Parts, x.Op == syntax.DashHdoc)) == 0 {
					s.sb.WriteString("nil")
				} else {
					s.parts(x.Hdoc.Parts, x.Op == syntax.DashHdoc)
				}
				s.sb.WriteString("}")
				return
			}
		}
		s.val(v.Elem())
	case reflect.Struct:
		t := v.Type()
		if t == posType {
			return
		}
		s.sb.WriteString(t.Name())
		s.sb.WriteByte('{')
		for i := 0; i < t.NumField(); i++ {
			f := t.Field(i)
			fv := v.Field(i)
			if f.Type == commentsType {
				continue
			}
			if f.Type == posType {
				keep := (t.Name() == "WordIter" && f.Name == "InPos") ||
					(t.Name() == "IfClause" && f.Name == "ThenPos") ||
					(t.Name() == "ParamExp" && f.Name == "Dollar")
				if keep {
					s.sb.WriteString(f.Name)
					if fv.Interface().(syntax.Pos).IsValid() {
						s.sb.WriteString("=valid ")
					} else {
						s.sb.WriteString("=unset ")
					}
				}
				continue
			}
			switch {
			case t.Name() == "CmdSubst" && f.Name == "Backquotes",
				t.Name() == "ArithmExp" && f.Name == "Bracket",
				t.Name() == "ForClause" && f.Name == "Braces":
				continue
			case t.Name() == "ParamExp" && f.Name == "Short":
				pe := v.Addr().Interface().(*syntax.ParamExp)
				if s.minify && IsSimpleParam(pe) {
					s.sb.WriteString("Short=* ")
					continue
				}
			}
			if !f.IsExported() {
				continue
			}
			// skip zero values to keep shapes short
			if fv.IsZero() {
				continue
			}
			s.sb.WriteString(f.Name)
			s.sb.WriteByte('=')
			s.val(fv)
			s.sb.WriteByte(' ')
		}
		s.sb.WriteByte('}')
	case reflect.Slice:
		s.sb.WriteByte('[')
		for i := 0; i < v.Len(); i++ {
			s.val(v.Index(i))
			s.sb.WriteByte(' ')
		}
		s.sb.WriteByte(']')
	case reflect.String:
		s.sb.WriteString(strconv.Quote(v.String()))
	case reflect.Bool:
		if v.Bool() {
			s.sb.WriteString("T")
		} else {
			s.sb.WriteString("F")
		}
	case reflect.Int, reflect.Int8, reflect.Int16, reflect.Int32, reflect.Int64:
		s.sb.WriteString(strconv.FormatInt(v.Int(), 10))
	case reflect.Uint, reflect.Uint8, reflect.Uint16, reflect.Uint32, reflect.Uint64:
		// operators: print the token text when the type has a String method
		if v.CanInterface() {
			if str, ok := v.Interface().(interface{ String() string }); ok {
				s.sb.WriteString(str.String())
				return
			}
		}
		s.sb.WriteString(strconv.FormatUint(v.Uint(), 10))
	default:
		s.sb.WriteString("?" + v.Kind().String())
	}
}

// Visit calls fn for every pointer-to-struct node reachable from n through exported
// fields (reflection; independent of syntax.Walk), parents before children, fields in
// declaration order.
func Visit(n any, fn func(x any)) {
	visit(reflect.ValueOf(n), fn)
}

func visit(v reflect.Value, fn func(x any)) {
	if !v.IsValid() {
		return
	}
	switch v.Kind() {
	case reflect.Interface:
		if !v.IsNil() {
			visit(v.Elem(), fn)
		}
	case reflect.Ptr:
		if v.IsNil() {
			return
		}
		if v.Elem().Kind() == reflect.Struct {
			fn(v.Interface())
		}
		visit(v.Elem(), fn)
	case reflect.Struct:
		t := v.Type()
		if t == posType {
			return
		}
		for i := 0; i < t.NumField(); i++ {
			if t.Field(i).IsExported() {
				visit(v.Field(i), fn)
			}
		}
	case reflect.Slice:
		if v.Type() == commentsType {
			for i := 0; i < v.Len(); i++ {
				fn(v.Index(i).Addr().Interface())
			}
			return
		}
		for i := 0; i < v.Len(); i++ {
			visit(v.Index(i), fn)
		}
	}
}

// Comments returns the comment texts of the tree in source order (by offset),
// trailing whitespace trimmed. Collected by reflection over every []Comment field.
func Comments(n syntax.Node) []string {
	type pc struct {
		off  uint
		text string
	}
	var cs []pc
	Visit(n, func(x any) {
		if c, ok := x.(*syntax.Comment); ok {
			cs = append(cs, pc{c.Hash.Offset(), strings.TrimRightFunc(c.Text, unicode.IsSpace)})
		}
	})
	for i := 1; i < len(cs); i++ {
		for j := i; j > 0 && cs[j-1].off > cs[j].off; j-- {
			cs[j-1], cs[j] = cs[j], cs[j-1]
		}
	}
	out := make([]string, len(cs))
	for i, c := range cs {
		out[i] = c.text
	}
	return out
}
