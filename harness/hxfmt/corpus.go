package hxfmt

import (
	"go/ast"
	"go/parser"
	"go/token"
	"hash/fnv"
	"math/rand/v2"
	"os"
	"path/filepath"
	"sort"
	"strconv"
	"strings"

	"mvdan.cc/sh/v3/syntax"
)

// RepoDir is the tree under test (VERIF_REPO or /repo); only its *_test.go files are read, as data.
func RepoDir() string {
	if d := os.Getenv("VERIF_REPO"); d != "" {
		return d
	}
	return "/repo"
}

// CorpusFiles returns every distinct string literal (1..4000 bytes) of the given Go
// files, sorted. The files are parsed with go/parser; nothing is compiled or run.
func CorpusFiles(files ...string) []string {
	seen := map[string]bool{}
	for _, f := range files {
		fset := token.NewFileSet()
		af, err := parser.ParseFile(fset, f, nil, 0)
		if err != nil {
			continue
		}
		ast.Inspect(af, func(n ast.Node) bool {
			if bl, ok := n.(*ast.BasicLit); ok && bl.Kind == token.STRING {
				s, err := strconv.Unquote(bl.Value)
				if err == nil && len(s) > 0 && len(s) < 4000 {
					seen[s] = true
				}
			}
			return true
		})
	}
	return sortedKeys(seen)
}

// pinned sources: the divergences of DESIGN section 7, the witnesses of the fixed and
// known findings, and separator/quoting/comment corner cases, so that they are always
// part of the enumeration.
var pinned = []string{
	">f foo() { bar; }",
	"cat <<EOF1\n$(cat <<EOF2\nx\nEOF2\n)\nEOF1",
	"`foo <<'EOF'\nbar\nEOF`",
	"((\nfoo\n))",
	"a &&\n\t#c\n\tb",
	"a |\n\t#c\n\tb",
	"( (a) )", "$( (a) )", "( (a); (b) )", "((a)\n)", "(\n(a))",
	"echo ${x}y ${x}- ${x}_ ${x}1 ${10} ${1}0 \"${x}y\"",
	"a \\", "echo a\\\\\\", "echo 'a\\'",
	"if a; then b; elif c; then d; else e; fi",
	"#!/bin/sh\n# c1\nfoo # c2\n# c3",
	"#!/usr/bin/env bash\nfoo",
	"foo # c1\n#!/bin/sh",
	"case x in\n# c0\na) b ;; # c1\n# c2\nesac # c3",
	"a=(\n\t# c0\n\tb # c1\n\t# c2\n)",
	"if a; then # c0\n\tb # c1\n# c2\nelse # c3\n\tc\nfi # c4",
	"cat <<EOF # c0\nbody\nEOF\n# c1",
	"foo | # c0\n\tbar",
	"foo \\\n\tbar # c0",
	"{ # c0\n\tfoo\n} # c1",
	"f() # c0\n{ foo; }",
	"for i in a b # c0\ndo foo; done",
	"$(foo # c0\n)",
	"`# c0`",
	"echo `foo # c0\n`",
	"a; b; c", "a\n\n\nb", "a \\\n b \\\n c", "{ a; b; }", "(a; b)", "a & b & c",
	// arithmetic: a sign operator next to an operand that starts with a sign (see ArithInputs)
	"echo $((a - -b * c)) $((a + +b / c)) $((a - --b % c)) $((a++ + ++b * c))",
	"echo ${x:a - -b*c} ${x:1:a - --b % c} ${x: -a * b:c + +d * e}",
	"((a - -b * c, d += +e * f, g -= -h / i))",
	"a[1 - -2 * 3]=x; echo ${a[i + +j % 2]}",
	// reported by seeders on the unchanged tree (each fixed or attributed to a listed class)
	"foo | &>x bar", "echo ${x:$h} ${x:$h:$l}", "echo ${a}[1] ${a}[i]", "echo ${x/a/\\\nb} ${x:-\\\nc}", "case x in a) b ;& esac", "case x in a) b ;;& esac",
	"( (foo)\n)", "x=`foo # c`", "case x in\na) b ;;\n# c\nesac", "[[ ! ! ! -n $a ]]", "[[ ! a = b ]]", "[[ ! ! (a == b) ]]", "[[ ! ! a ]] && [[ ! (! b) ]]",
	"time cat <<EOF # c\nb\nEOF", "coproc cat <<EOF # c\nb\nEOF", "time # c\ncmd", "foo() { # c1\n\tbar\n} <<EOF # c2\nbody\nEOF", "foo # a\vb\nbar # c\fd\nbaz",
	// line-1 trailing comments, shebang-like and ordinary (Minify keeps only a shebang at 1:1)
	"foo #!/usr/bin/env bash", "foo #!/usr/bin/env bash\nbar", "exec sh \"$0\" #!/bin/sh\nx", " #!/bin/sh\nfoo", "foo # plain\nbar", "#!/bin/sh\nfoo #!/bin/sh",
	// witnesses of fixed findings
	"case x in a) b;; esac\nfoo", "echo $(foo &)\nbar", "{ foo & }\nbar",
	"cat <<-EOF\n\ttab\there\n\tEOF",
	"(\n\t(foo >redir)\n)",
	"{ }", "a >*<(b)c",
}

// VerifRoot is the /verif checkout (VERIF_ROOT, else /verif, else the working directory).
func VerifRoot() string {
	if d := os.Getenv("VERIF_ROOT"); d != "" {
		return d
	}
	if _, err := os.Stat("/verif/corpus"); err == nil {
		return "/verif"
	}
	return "."
}

// ExpectedComments maps a pinned regression source to the comment texts it contains (hand-written).
var ExpectedComments = map[string][]string{}

// LoadRegress reads corpus/c01/regress.txt: entries separated by "%%" lines; leading '#' lines of
// the FILE before the first separator are a header; an entry may start with "#@comments: a|b".
func LoadRegress() []string {
	b, err := os.ReadFile(filepath.Join(VerifRoot(), "corpus", "c01", "regress.txt"))
	if err != nil {
		return nil
	}
	var out []string
	for i, blk := range strings.Split(string(b), "\n%%\n") {
		if i == 0 {
			continue // header
		}
		blk = strings.TrimSuffix(blk, "\n")
		if strings.HasPrefix(blk, "#@comments:") {
			line, rest, _ := strings.Cut(blk, "\n")
			var exp []string
			for _, t := range strings.Split(strings.TrimPrefix(line, "#@comments:"), "|") {
				exp = append(exp, t)
			}
			blk = rest
			ExpectedComments[blk] = exp
		}
		if blk != "" {
			out = append(out, blk)
		}
	}
	return out
}

// LoadCorpus: test-table literals of syntax/filetests_test.go and
// syntax/printer_test.go (plus pinned witnesses), deduplicated, sorted.
func LoadCorpus() []string {
	dir := filepath.Join(RepoDir(), "syntax")
	srcs := CorpusFiles(filepath.Join(dir, "filetests_test.go"), filepath.Join(dir, "printer_test.go"))
	seen := map[string]bool{}
	for _, s := range srcs {
		seen[s] = true
	}
	for _, s := range pinned {
		seen[s] = true
	}
	for _, s := range LoadRegress() {
		seen[s] = true
	}
	return sortedKeys(seen)
}

// Input is one element of the fixed enumeration.
type Input struct {
	ID   string // e.g. "corpus:123:bash", "mut:123:4:bash", "gen:bash:77"
	Kind string // corpus | mut | gen
	Src  string
	Lang syntax.LangVariant
}

func hash64(s string) uint64 {
	h := fnv.New64a()
	h.Write([]byte(s))
	return h.Sum64()
}

// --------------------------------------------------------------------------
// Fixed mutation enumeration. Mutation k of a corpus item is a deterministic
// function of (source text, k) only - never of VERIF_SEED.

var byteAlphabet = []string{" ", "\n", ";", "&", "|", "(", ")", "<", ">", "\"", "'", "$", "`", "{", "}", "#", "\\", "=", "!", "*", "?", "[", "]", "~", "a", "1", "-", "\t", ":", "/", "+", "%", "@", ","}

var tokenDict = []string{
	" # cm\n", "\n# cm\n", " #cm", "\n\n", "\n\n\n", "; ", " \\\n", " \\\n\t", ";\n", " &\n", " && ", " || ", " | ", " |\n", " &&\n",
	"$x", "${x}", "${x}y", "\"$x\"", "\"${x}y\"", "$(a)", "`a`", "$((1))", "$[1]", "'q'", "$'q'", "$\"q\"", "\\\\", "\\\n",
	"( ", " )", "{ ", "; }", " >f", " <f", " 2>&1", " >>f", " <<EOF\nb\nEOF\n", " <<-EOF\n\tb\n\tEOF\n", " <<<w",
	"if a; then b; fi", "while a; do b; done", "for i in 1; do b; done", "case x in a) b ;; esac", "f() { a; }", "! ", "((1))", "[[ a ]]",
	"a=b ", "a=(b c) ", "<(a)", "@(a|b)", "{a,b}", "~", "function f { a; }", "time ", "coproc ", "let 1", "declare a=b",
}

// Mutate returns mutation k of src (may not parse; callers filter). k mod 4 selects the family:
// 0 byte-level, 1 layout perturbation, 2 comment injection, 3 token insertion/splice.
func Mutate(src string, k int, others []string) (string, int) {
	r := rand.New(rand.NewPCG(hash64(src), uint64(k)))
	family := k % 4
	b := []byte(src)
	pos := func() int { return r.IntN(len(b) + 1) }
	switch family {
	case 0: // byte-level: 1..3 edits
		n := 1 + r.IntN(3)
		for e := 0; e < n && len(b) > 0; e++ {
			switch r.IntN(5) {
			case 0: // delete
				i := r.IntN(len(b))
				b = append(b[:i:i], b[i+1:]...)
			case 1: // duplicate
				i := r.IntN(len(b))
				b = append(b[:i+1:i+1], b[i:]...)
			case 2: // swap adjacent
				if len(b) > 1 {
					i := r.IntN(len(b) - 1)
					b[i], b[i+1] = b[i+1], b[i]
				}
			case 3: // replace
				i := r.IntN(len(b))
				a := byteAlphabet[r.IntN(len(byteAlphabet))]
				b = append(b[:i:i], append([]byte(a), b[i+1:]...)...)
			case 4: // insert
				i := pos()
				a := byteAlphabet[r.IntN(len(byteAlphabet))]
				b = append(b[:i:i], append([]byte(a), b[i:]...)...)
			}
		}
	case 1: // layout: act on whitespace / separators
		var spots []int
		for i, c := range b {
			if c == ' ' || c == '\n' || c == ';' || c == '\t' {
				spots = append(spots, i)
			}
		}
		n := 1 + r.IntN(4)
		for e := 0; e < n; e++ {
			if len(spots) == 0 {
				// no separator: add leading/trailing blank lines
				if r.IntN(2) == 0 {
					b = append([]byte("\n\n"), b...)
				} else {
					b = append(b, "\n\n\n"...)
				}
				break
			}
			si := r.IntN(len(spots))
			i := spots[si]
			var rep string
			switch b[i] {
			case '\n':
				rep = []string{"\n\n", "\n\n\n", "; ", ";\n", "\n\t", " \n", "\n# cm\n", " # cm\n", ";"}[r.IntN(9)]
			case ';':
				rep = []string{"\n", ";\n", "\n\n", " ;", "; \\\n"}[r.IntN(5)]
			default:
				rep = []string{" \\\n", " \\\n\t", "  ", "\t", " \\\n \\\n", "\n", " # cm\n", "   "}[r.IntN(8)]
			}
			b = append(b[:i:i], append([]byte(rep), b[i+1:]...)...)
			d := len(rep) - 1
			for j := si + 1; j < len(spots); j++ {
				spots[j] += d
			}
			spots = append(spots[:si], spots[si+1:]...)
		}
	case 2: // comment injection at a byte boundary next to a separator or operator
		n := 1 + r.IntN(3)
		for e := 0; e < n; e++ {
			var spots []int
			for i := 0; i <= len(b); i++ {
				if i == 0 || i == len(b) || strings.IndexByte(" \n;\t(){}|&", b[i-1]) >= 0 || strings.IndexByte(" \n;\t(){}|&", b[i]) >= 0 {
					spots = append(spots, i)
				}
			}
			i := spots[r.IntN(len(spots))]
			tag := "c" + strconv.Itoa(k) + "_" + strconv.Itoa(e)
			var ins string
			switch r.IntN(5) {
			case 0:
				ins = " # " + tag + "\n"
			case 1:
				ins = "\n# " + tag + "\n"
			case 2:
				ins = " #" + tag + " \t\n"
			case 3:
				ins = "\n\n#" + tag + "\n\n"
			case 4:
				ins = " # " + tag + " # not second\n"
			}
			b = append(b[:i:i], append([]byte(ins), b[i:]...)...)
		}
	case 3: // token insertion or splice with another corpus item
		if r.IntN(3) == 0 && len(others) > 0 {
			o := others[r.IntN(len(others))]
			sep := []string{"\n", "; ", " && ", " | ", "\n\n", " &\n"}[r.IntN(6)]
			if r.IntN(2) == 0 {
				b = []byte(src + sep + o)
			} else {
				i := pos()
				b = append(b[:i:i], append([]byte(" $("+o+"\n) "), b[i:]...)...)
			}
		} else {
			i := pos()
			t := tokenDict[r.IntN(len(tokenDict))]
			b = append(b[:i:i], append([]byte(t), b[i:]...)...)
		}
	}
	return string(b), family
}

// EnumOpts selects the part of the fixed enumeration to produce.
// The enumeration: corpus items x langs (those that parse), NMut mutations per corpus item
// (in bash and one rotating other variant; those that parse and differ from the source),
// NGen generated programs per lang (those that parse). The order is fixed. Slice/NSlices
// select mut/gen inputs with index%NSlices==Slice (corpus items are always all included);
// NSlices<=1 selects everything.
type EnumOpts struct {
	NMut    int
	NGen    int
	Slice   int
	NSlices int
}

func Enumerate(eo EnumOpts, emit func(Input)) (stats map[string]int) {
	stats = map[string]int{}
	corpus := LoadCorpus()
	stats["corpus_literals"] = len(corpus)
	in := func(idx int) bool { return eo.NSlices <= 1 || idx%eo.NSlices == eo.Slice%eo.NSlices }
	for i, src := range corpus {
		for _, l := range Langs {
			if _, err := Parse(src, l, true); err != nil {
				stats["corpus_noparse"]++
				continue
			}
			stats["corpus"]++
			emit(Input{ID: "corpus:" + strconv.Itoa(i) + ":" + l.String(), Kind: "corpus", Src: src, Lang: l})
		}
	}
	idx := 0
	for i, src := range corpus {
		if len(src) > 600 {
			continue
		}
		for k := 0; k < eo.NMut; k++ {
			idx++
			if !in(idx) {
				continue
			}
			m, _ := Mutate(src, k, corpus)
			if m == src || len(m) == 0 {
				continue
			}
			for _, l := range Langs {
				// a mutation is tried in bash and in one other (rotating) variant
				// (zsh is visited on the corpus only: its parser support is the newest and
				// mutations there produce many variant-specific divergences; see notes)
				if l != syntax.LangBash && Langs[1+(i+k)%3] != l {
					continue
				}
				if _, err := Parse(m, l, true); err != nil {
					stats["mut_noparse"]++
					continue
				}
				stats["mut"]++
				emit(Input{ID: "mut:" + strconv.Itoa(i) + ":" + strconv.Itoa(k) + ":" + l.String(), Kind: "mut", Src: m, Lang: l})
			}
		}
	}
	// arithmetic adjacency enumeration: bash plus one of posix/mksh (alternating)
	for a, src := range ArithInputs() {
		idx++
		if !in(idx) {
			continue
		}
		for _, l := range []syntax.LangVariant{syntax.LangBash, Langs[1+a%2]} {
			if _, err := Parse(src, l, true); err != nil {
				stats["arith_noparse"]++
				continue
			}
			stats["arith"]++
			emit(Input{ID: "arith:" + strconv.Itoa(a) + ":" + l.String(), Kind: "arith", Src: src, Lang: l})
		}
	}
	// combinations of interacting constructs: bash plus one of posix/mksh (alternating)
	for a, src := range ComboInputs() {
		idx++
		if !in(idx) {
			continue
		}
		for _, l := range []syntax.LangVariant{syntax.LangBash, Langs[1+a%2]} {
			if _, err := Parse(src, l, true); err != nil {
				stats["combo_noparse"]++
				continue
			}
			stats["combo"]++
			emit(Input{ID: "combo:" + strconv.Itoa(a) + ":" + l.String(), Kind: "combo", Src: src, Lang: l})
		}
	}
	for li, l := range Langs {
		if l == syntax.LangZsh {
			continue
		}
		for g := 0; g < eo.NGen; g++ {
			idx++
			if !in(idx) {
				continue
			}
			src := Generate(l, uint64(g)*8+uint64(li))
			if _, err := Parse(src, l, true); err != nil {
				stats["gen_noparse"]++
				continue
			}
			stats["gen"]++
			emit(Input{ID: "gen:" + l.String() + ":" + strconv.Itoa(g), Kind: "gen", Src: src, Lang: l})
		}
	}
	return stats
}

// ArithInputs is a fixed, systematic enumeration of small arithmetic expressions in every
// arithmetic context, aimed at operator adjacency in the (compact) arithmetic printer: a
// binary operator followed by an operand whose LEFTMOST leaf carries a prefix sign operator,
// possibly under a tighter-binding binary operator (no parentheses in the tree), and
// postfix ++/-- on the left. The source text always separates tokens with blanks.
func ArithInputs() []string {
	unary := []string{"b", "-b", "+b", "!b", "~b", "++b", "--b", "- -b", "+ +b", "- --b", "+ ++b", "b++", "b--", "-1", "$b", "-$b"}
	tight := []string{"*", "/", "%", "**"}
	var ys []string
	ys = append(ys, unary...)
	for _, u := range unary {
		for _, op := range tight {
			ys = append(ys, u+" "+op+" c")
		}
	}
	for _, u := range []string{"-b", "+b", "--b", "++b"} {
		ys = append(ys, u+" * c / d", u+" ? c : d", "c * "+u, "c ? "+u+" : "+u)
	}
	xs := []string{"a", "a++", "a--"}
	ops := []string{"+", "-", "+=", "-=", "*", "<<", "&&", ","}
	var exprs []string
	for _, x := range xs {
		for _, op := range ops {
			if (op == "+=" || op == "-=") && x != "a" {
				continue
			}
			for _, y := range ys {
				exprs = append(exprs, x+" "+op+" "+y)
			}
		}
	}
	for _, u := range unary { // the operand alone, and under a prefix sign
		exprs = append(exprs, u, "- "+u, "+ "+u)
	}
	ctxs := []string{"echo $((%s))", "((%s))", "echo ${x:%s}", "echo ${x:1:%s}", "a[%s]=1", "echo ${a[%s]}", "echo \"$((%s))\" $[%s]", "for ((i = %s; i < 3; i++)); do :; done"}
	var out []string
	for _, e := range exprs {
		for _, c := range ctxs {
			out = append(out, strings.ReplaceAll(c, "%s", e))
		}
	}
	return out
}

func init() { sort.Strings(pinned) }
