package hxfmt

import (
	"math/rand/v2"
	"strconv"
	"strings"

	"mvdan.cc/sh/v3/syntax"
)

// Generate produces a program text for the variant from a grammar covering most node
// kinds, with varied layout (newline / `;` / blank lines / backslash-newline / comments).
// Deterministic in (lang, n). The result may fail to parse (callers filter and count).
func Generate(l syntax.LangVariant, n uint64) string {
	g := &gen{r: rand.New(rand.NewPCG(0x5eed, n)), lang: l}
	g.bashish = l == syntax.LangBash || l == syntax.LangBats || l == syntax.LangZsh
	g.kshish = g.bashish || l == syntax.LangMirBSDKorn
	var sb strings.Builder
	if g.r.IntN(6) == 0 {
		sb.WriteString(g.pick("#!/bin/sh\n", "#!/usr/bin/env bash\n", "#!/bin/bash -e\n", "# not a shebang\n", "#!not\n"))
	}
	sb.WriteString(g.stmts(1+int(n/8)%2, 1+g.r.IntN(4), "\n"))
	if len(g.hdocs) > 0 {
		sb.WriteString(g.nl())
	} else if g.r.IntN(2) == 0 {
		sb.WriteString("\n")
	}
	return sb.String()
}

type gen struct {
	r       *rand.Rand
	lang    syntax.LangVariant
	bashish bool
	kshish  bool
	hdocs   []string // pending heredoc bodies for the current line
	inPipe  bool
	ncom    int
	nhd     int
}

func (g *gen) pick(xs ...string) string { return xs[g.r.IntN(len(xs))] }
func (g *gen) chance(n int) bool       { return g.r.IntN(n) == 0 }

func (g *gen) comment() string {
	g.ncom++
	return "#" + g.pick("", " ", "  ") + "k" + strconv.Itoa(g.ncom) + g.pick("", " ", " x y", "\t", " 'q", " ;|&")
}

// sep returns a statement separator; flushes pending heredocs when it contains a newline.
func (g *gen) sep(ctx string) string {
	var s string
	if len(g.hdocs) > 0 {
		s = g.nl()
	} else {
		switch g.r.IntN(10) {
		case 0, 1, 2:
			s = "; "
		case 3:
			s = ";" + g.nl()
		case 4:
			s = " " + g.comment() + g.nl()
		case 5:
			s = g.nl() + g.nl()
		case 6:
			s = g.nl() + g.comment() + g.nl()
		default:
			s = g.nl()
		}
	}
	return s
}

// nl emits a newline and any pending heredoc bodies.
func (g *gen) nl() string {
	s := "\n"
	for _, h := range g.hdocs {
		s += h
	}
	g.hdocs = nil
	return s
}

func (g *gen) ws() string {
	switch g.r.IntN(12) {
	case 0:
		return "  "
	case 1:
		if len(g.hdocs) == 0 {
			return " \\\n"
		}
		return " "
	case 2:
		if len(g.hdocs) == 0 {
			return " \\\n\t"
		}
		return " "
	default:
		return " "
	}
}

func (g *gen) stmts(depth, n int, _ string) string {
	var sb strings.Builder
	for i := 0; i < n; i++ {
		if i > 0 {
			if strings.HasSuffix(sb.String(), "&") {
				sb.WriteString(g.pick(" ", g.nl(), " "))
			} else {
				sb.WriteString(g.sep(""))
			}
		} else if g.chance(8) {
			sb.WriteString(g.comment() + g.nl())
		}
		sb.WriteString(g.stmt(depth))
	}
	return sb.String()
}

// body: statements followed by a terminator suitable before a closing keyword
func (g *gen) body(depth int) string {
	s := g.stmts(depth, 1+g.r.IntN(3), "")
	if len(g.hdocs) > 0 {
		return s + g.nl()
	}
	if strings.HasSuffix(s, "&") {
		return s + g.pick(" ", "\n")
	}
	switch g.r.IntN(5) {
	case 0, 1:
		return s + "; "
	case 2:
		return s + " " + g.comment() + g.nl()
	default:
		return s + g.nl()
	}
}

func (g *gen) open() string {
	if len(g.hdocs) > 0 {
		return g.nl()
	}
	return g.pick(" ", " ", "\n", "\n\t", " "+g.comment()+"\n")
}

func (g *gen) stmt(depth int) string {
	var sb strings.Builder
	if g.chance(12) && !g.inPipe {
		sb.WriteString("! ")
	}
	sb.WriteString(g.command(depth))
	nred := 0
	if g.chance(4) {
		nred = 1 + g.r.IntN(2)
	}
	for i := 0; i < nred; i++ {
		sb.WriteString(g.ws() + g.redirect(depth))
	}
	if g.chance(12) && !g.inPipe {
		sb.WriteString(" &")
	}
	return sb.String()
}

func (g *gen) redirect(depth int) string {
	fd := g.pick("", "", "", "2", "1", "0")
	if g.bashish && g.chance(15) && g.lang != syntax.LangBats {
		fd = "{fd}"
	}
	sp := g.pick("", "", " ")
	switch g.r.IntN(12) {
	case 0, 1:
		return fd + ">" + sp + g.word(depth, false)
	case 2:
		return fd + ">>" + sp + g.word(depth, false)
	case 3:
		return fd + "<" + sp + g.word(depth, false)
	case 4:
		return g.pick("2>&1", ">&2", "<&0", "2>&-", ">|f", "<>f")
	case 5:
		if g.kshish {
			return "<<<" + sp + g.word(depth, false)
		}
		return ">" + g.word(depth, false)
	case 6:
		if g.bashish {
			return g.pick("&>", "&>>") + sp + g.word(depth, false)
		}
		return "<f"
	case 7, 8, 9:
		g.nhd++
		delim := "EOF" + strconv.Itoa(g.nhd)
		quoted := g.chance(3)
		dash := g.chance(3)
		var b strings.Builder
		nlines := g.r.IntN(3)
		for i := 0; i < nlines; i++ {
			if dash {
				b.WriteString(strings.Repeat("\t", g.r.IntN(3)))
			}
			if quoted {
				b.WriteString(g.pick("plain $x `y`", "  two  spaces", "\\", "# not comment", ""))
			} else {
				b.WriteString(g.pick("plain", "$x and ${y}", "a $(echo "+g.pick("b", "b | c", "$z")+") c", "`echo q` \\$ \\\\", "# not comment", "", "tab\there", "$((1 + 2))", "a \\\nb"))
				if depth > 1 && g.chance(10) {
					// nested here-document inside a command substitution inside the body
					b.WriteString(" $(cat <<IN" + strconv.Itoa(g.nhd) + "\ninner\nIN" + strconv.Itoa(g.nhd) + "\n)")
				}
			}
			b.WriteString("\n")
		}
		if dash {
			b.WriteString(strings.Repeat("\t", g.r.IntN(2)))
		}
		b.WriteString(delim + "\n")
		g.hdocs = append(g.hdocs, b.String())
		op := "<<"
		if dash {
			op = "<<-"
		}
		d := delim
		if quoted {
			d = g.pick("'"+delim+"'", "\""+delim+"\"", "\\"+delim)
		}
		return fd + op + sp + d
	default:
		return ">" + sp + g.word(depth, false)
	}
}

func (g *gen) name() string {
	return g.pick("a", "b", "foo", "x", "y1", "_z", "PATH", "i")
}

func (g *gen) lit() string {
	return g.pick("a", "b", "foo", "bar", "-n", "--x=y", "1", "a.b", "/usr/bin", "x_y", "a\\ b", "\\$x", "a\\\"b", "%s", "+x", "a:b", "a,b", "a=b", "é", "\\\\", "[a-z]*", "?", "~", "~/x", "a#b", "@", "!", "}", "{", "]]", "in", "do")
}

func (g *gen) param(depth int) string {
	n := g.name()
	switch g.r.IntN(22) {
	case 0, 1, 2:
		return "$" + n
	case 3, 4:
		return "${" + n + "}"
	case 5:
		return "$" + g.pick("1", "@", "*", "#", "?", "$", "!", "-", "0")
	case 6:
		return "${" + n + g.pick(":-", "-", ":=", "=", ":?", "?", ":+", "+", "#", "##", "%", "%%") + g.word(depth-1, true) + "}"
	case 7:
		return "${#" + n + "}"
	case 8:
		return "${" + g.pick("10", "1", "@", "#", "*") + "}"
	case 9:
		if g.kshish {
			return "${" + n + "[" + g.pick("1", "@", "*", "i+1", "$i") + "]}"
		}
	case 10:
		if g.kshish {
			return "${" + n + g.pick("/", "//", "/#", "/%") + g.pick("a", "*", "$x") + "/" + g.pick("b", "", "$y") + "}"
		}
	case 11:
		if g.kshish {
			return "${" + n + ":" + g.pick("1", "1:2", " -1", "i", "$i:1") + "}"
		}
	case 12:
		if g.bashish {
			return "${!" + n + g.pick("", "*", "@", "[@]") + "}"
		}
	case 13:
		if g.bashish {
			return "${" + n + g.pick("^", "^^", ",", ",,", "@Q", "@E") + "}"
		}
	case 14:
		return "${" + n + "}" + g.pick("y", "_", "1", "-", ".", "[")
	}
	return "$" + n
}

func (g *gen) arith(depth int) string {
	if depth <= 0 {
		return g.pick("1", "x", "$x", "0x10", "i")
	}
	switch g.r.IntN(10) {
	case 0, 1, 2:
		return g.arith(depth-1) + g.pick(" + ", "-", " * ", "/", " % ", " == ", "<", " && ", " || ", "&", "|", "^", "<<", ">>", " , ") + g.arith(depth-1)
	case 3:
		return "(" + g.arith(depth-1) + ")"
	case 4:
		return g.pick("-", "!", "~", "+", "++", "--") + g.pick("x", "i")
	case 5:
		return g.pick("x", "i") + g.pick("++", "--")
	case 6:
		return g.pick("x", "i") + g.pick(" = ", "+=", " -= ", "*=") + g.arith(depth-1)
	case 7:
		return g.arith(depth-1) + " ? " + g.arith(depth-1) + " : " + g.arith(depth-1)
	case 8:
		if g.kshish {
			return g.pick("a[1]", "a[i]", "${a[1]}", "$(echo 1)")
		}
	}
	return g.pick("1", "x", "$x", "i", "10")
}

func (g *gen) dq(depth int) string {
	var sb strings.Builder
	sb.WriteString("\"")
	n := g.r.IntN(4)
	for i := 0; i < n; i++ {
		switch g.r.IntN(9) {
		case 0, 1:
			sb.WriteString(g.pick("a", " b ", "foo bar", "\\\"", "\\$", "\\\\", "'", "#", "\n", "  ", "\\\n", ";", "(", "\\a", "!"))
		case 2, 3:
			sb.WriteString(g.param(depth))
		case 4:
			if depth > 0 {
				sb.WriteString("$(" + g.stmts(depth-1, 1, "") + g.closeSub() + ")")
			}
		case 5:
			sb.WriteString("$((" + g.arith(1) + "))")
		case 6:
			if depth > 0 {
				sb.WriteString("`" + g.simple(0) + g.closeSub() + "`")
			}
		default:
			sb.WriteString(g.pick("x", "y z", "-"))
		}
	}
	sb.WriteString("\"")
	return sb.String()
}

// closeSub flushes pending heredocs before a closing paren of a substitution
func (g *gen) closeSub() string {
	if len(g.hdocs) > 0 {
		return g.nl()
	}
	return g.pick("", "", "\n", " ")
}

func (g *gen) word(depth int, inParam bool) string {
	var sb strings.Builder
	n := 1
	if g.chance(3) {
		n = 2 + g.r.IntN(2)
	}
	for i := 0; i < n; i++ {
		switch g.r.IntN(16) {
		case 0, 1, 2, 3:
			sb.WriteString(g.lit())
		case 4:
			sb.WriteString("'" + g.pick("", "a", "a b", "$x", "\\", "\"", "a\nb", "#") + "'")
		case 5, 6:
			sb.WriteString(g.dq(depth))
		case 7, 8:
			sb.WriteString(g.param(depth))
		case 9:
			if depth > 0 && !inParam {
				sb.WriteString("$(" + g.pick("", " ") + g.stmts(depth-1, 1+g.r.IntN(2), "") + g.closeSub() + ")")
			} else {
				sb.WriteString("$(a)")
			}
		case 10:
			if depth > 0 && !inParam {
				sb.WriteString("`" + g.simple(0) + g.closeSub() + "`")
			} else {
				sb.WriteString("`a`")
			}
		case 11:
			sb.WriteString("$((" + g.pick("", " ") + g.arith(2) + g.pick("", " ") + "))")
		case 12:
			if g.kshish {
				sb.WriteString(g.pick("$'a\\nb'", "$'\\''", "$\"loc\"", "$'a b'"))
			} else {
				sb.WriteString("x")
			}
		case 13:
			if g.lang == syntax.LangBash || g.lang == syntax.LangBats {
				sb.WriteString(g.pick("$[1 + 2]", "<(a b)", ">(c)", "@(a|b)", "+(x)", "!(y)", "?(z)*", "{a,b}", "{1..3}"))
			} else if g.lang == syntax.LangMirBSDKorn {
				sb.WriteString(g.pick("@(a|b)", "+(x)", "!(y)", "${ echo a;}", "${|REPLY=a;}"))
			} else {
				sb.WriteString("y")
			}
		default:
			sb.WriteString(g.lit())
		}
	}
	return sb.String()
}

func (g *gen) simple(depth int) string {
	var sb strings.Builder
	na := 0
	if g.chance(5) {
		na = 1 + g.r.IntN(2)
	}
	for i := 0; i < na; i++ {
		sb.WriteString(g.name() + g.pick("=", "=", "+=") + g.pick("", g.word(depth, false)) + g.ws())
	}
	nw := 1 + g.r.IntN(4)
	if na > 0 && g.chance(2) {
		nw = 0
	}
	for i := 0; i < nw; i++ {
		if i > 0 {
			sb.WriteString(g.ws())
			if g.chance(12) {
				sb.WriteString(g.redirect(depth) + g.ws())
			}
		}
		if i == 0 {
			sb.WriteString(g.pick("echo", "foo", "cat", "a", ":", "printf", "test", "[", "bar", "true", "exec", "\\ls", "'q'", "$cmd", "\"$c\" "))
		} else {
			sb.WriteString(g.word(depth, false))
		}
	}
	return strings.TrimRight(sb.String(), " ")
}

func (g *gen) testExpr(depth int) string {
	if depth <= 0 {
		return g.pick("a", "$x", "\"$y\"", "-n $x", "-f f", "! a", "a == b", "$x != y", "a =~ ^b+$", "a -eq 1", "a < b", "-z \"$a\"")
	}
	switch g.r.IntN(5) {
	case 0:
		return g.testExpr(depth-1) + g.pick(" && ", " || ", " &&\n\t", " ||\n") + g.testExpr(depth-1)
	case 1:
		return "(" + g.pick("", " ") + g.testExpr(depth-1) + g.pick("", " ") + ")"
	case 2:
		return "! " + g.testExpr(depth-1)
	}
	return g.testExpr(0)
}

func (g *gen) command(depth int) string {
	if depth <= 0 {
		return g.simple(0)
	}
	k := g.r.IntN(40)
	switch {
	case k < 12:
		return g.simple(depth)
	case k < 16:
		op := g.pick(" | ", " && ", " || ", " |\n\t", " &&\n", " ||\n\t", " | "+g.comment()+"\n", " && "+g.comment()+"\n\t", " \\\n\t| ", " \\\n&& ")
		if g.bashish && g.chance(8) {
			op = " |& "
		}
		saved := g.inPipe
		g.inPipe = true
		defer func() { g.inPipe = saved }()
		l := g.stmt(depth - 1)
		if len(g.hdocs) > 0 && !strings.Contains(op, "\n") {
			op = strings.TrimRight(op, " ") + g.nl()
		} else if len(g.hdocs) > 0 {
			op = " | " + g.nl()
		}
		return l + op + g.stmt(depth-1)
	case k < 18:
		inner := g.stmts(depth-1, 1+g.r.IntN(2), "")
		cl := g.closeSub()
		return "(" + g.pick("", " ", "\n") + inner + cl + ")"
	case k < 20:
		return "{" + g.open() + g.body(depth-1) + "}"
	case k < 23:
		s := "if " + g.body(depth-1) + "then" + g.open() + g.body(depth-1)
		for g.chance(4) {
			s += "elif " + g.body(depth-1) + "then" + g.open() + g.body(depth-1)
		}
		if g.chance(2) {
			s += "else" + g.open() + g.body(depth-1)
		}
		return s + "fi"
	case k < 25:
		return g.pick("while ", "until ") + g.body(depth-1) + "do" + g.open() + g.body(depth-1) + "done"
	case k < 28:
		head := "for " + g.name()
		switch g.r.IntN(4) {
		case 0:
			head += g.pick("; ", "\n")
		case 1:
			if g.lang == syntax.LangBash || g.lang == syntax.LangZsh {
				head = "for ((" + g.pick("", "i = 0", "i=0") + "; " + g.pick("", "i < 3") + "; " + g.pick("", "i++") + "))" + g.pick("; ", "\n")
			} else {
				head += " in a b; "
			}
		default:
			head += " in"
			for i := g.r.IntN(4); i > 0; i-- {
				head += g.ws() + g.word(depth-1, false)
			}
			head += g.pick("; ", "\n", " "+g.comment()+"\n")
		}
		if g.bashish && g.chance(10) && g.lang != syntax.LangZsh {
			return head + "{ " + g.body(depth-1) + "}"
		}
		return head + "do" + g.open() + g.body(depth-1) + "done"
	case k < 31:
		s := "case " + g.word(depth-1, false) + " in" + g.pick(" ", "\n", "\n\t", " "+g.comment()+"\n")
		ni := g.r.IntN(4)
		for i := 0; i < ni; i++ {
			if g.chance(6) {
				s += g.comment() + "\n"
			}
			s += g.pick("", "(") + g.pick("a", "*", "\"$x\"", "[a-z]*", "a b"[:1]) + g.pick("", "|b", " | c") + ")"
			if g.chance(5) {
				// empty item
			} else {
				s += g.pick(" ", "\n\t") + g.stmts(depth-1, 1+g.r.IntN(2), "")
			}
			if len(g.hdocs) > 0 {
				s += g.nl()
			}
			last := i == ni-1
			op := ";;"
			if g.bashish && g.chance(5) {
				op = g.pick(";&", ";;&")
			}
			if last && g.chance(3) {
				s += g.pick("\n", " ")
				if !strings.HasSuffix(s, "\n") {
					s += "\n"
				}
			} else {
				s += g.pick(" ", "\n", "\n\t") + op + g.pick(" ", "\n", " "+g.comment()+"\n", "\n\n")
			}
		}
		return s + "esac"
	case k < 33:
		body := "{" + g.open() + g.body(depth-1) + "}"
		if g.chance(6) {
			body = "(" + g.stmts(depth-1, 1, "") + g.closeSub() + ")"
		}
		nm := g.pick("f", "foo", "my_fn", "f2")
		switch g.r.IntN(4) {
		case 0:
			if g.kshish {
				return "function " + nm + g.pick(" ", "\n") + body
			}
		case 1:
			if g.bashish {
				return "function " + nm + "()" + g.pick(" ", "\n") + body
			}
		}
		return nm + g.pick("()", "( )", " ()") + g.pick(" ", "\n", " "+g.comment()+"\n") + body
	case k < 34:
		if g.kshish {
			return "((" + g.pick("", " ") + g.arith(2) + g.pick("", " ") + "))"
		}
	case k < 36:
		if g.kshish {
			return "[[ " + g.testExpr(2) + " ]]"
		}
	case k < 37:
		if g.bashish {
			v := g.pick("declare", "local", "export", "readonly", "typeset", "declare -a", "local -r")
			s := v
			for i := 1 + g.r.IntN(2); i > 0; i-- {
				switch g.r.IntN(4) {
				case 0:
					s += " " + g.name()
				case 1:
					s += " " + g.name() + "=(" + g.pick("", "a b", "[1]=x [2]=y", "\n\ta "+g.comment()+"\n\tb\n", "$x \"y z\"") + ")"
				default:
					s += " " + g.name() + "=" + g.word(depth-1, false)
				}
			}
			return s
		}
		return g.name() + "=" + g.word(depth-1, false)
	case k < 38:
		if g.kshish {
			if g.lang == syntax.LangBash && g.chance(3) {
				return g.pick("coproc "+g.simple(0), "coproc { a; }", "coproc nm { a; }")
			}
			return g.pick("time "+g.simple(0), "time -p "+g.simple(0), "let i=1 j++", "let 'i = 1'", "time", "time { a; }")
		}
	case k < 39:
		if g.kshish && g.lang != syntax.LangMirBSDKorn {
			return g.name() + "=(" + g.pick("", "a b", "[1]=x [2]=y", "\n\ta "+g.comment()+"\n\tb\n", "$x \"y z\"", "a\n\tb") + ")"
		}
	}
	return g.simple(depth)
}

