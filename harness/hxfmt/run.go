package hxfmt

import (
	"fmt"
	"os"
	"runtime"
	"strconv"
	"strings"
	"sync"
	"unicode"

	"mvdan.cc/sh/v3/fileutil"
	"mvdan.cc/sh/v3/syntax"
	"verifharness/hx"
)

// Failure is one concrete failing case of a property clause.
type Failure struct {
	Prop     string `json:"prop"`
	ID       string `json:"id"`
	Kind     string `json:"kind"`
	Lang     string `json:"lang"`
	Src      string `json:"src"` // hex
	SrcText  string `json:"src_text"`
	Opts     string `json:"opts"`
	Simplify bool   `json:"simplify"`
	Clause   string `json:"clause"`
	Class    string `json:"class"`
	Detail   string `json:"detail"`
	Shrunk   string `json:"shrunk,omitempty"` // hex: delta-debugged source failing the same clause (unclassified failures only)
	ShrunkTx string `json:"shrunk_text,omitempty"`
}

type Case struct {
	In       Input
	Simplify bool
	Opt      OptSet
	SubNodes bool
}

func trunc(s string, n int) string {
	if len(s) > n {
		return s[:n] + "..."
	}
	return s
}

func firstDiff(a, b string) string {
	i := 0
	for i < len(a) && i < len(b) && a[i] == b[i] {
		i++
	}
	lo := i - 40
	if lo < 0 {
		lo = 0
	}
	return fmt.Sprintf("at %d: %q vs %q", i, trunc(a[lo:], 100), trunc(b[lo:], 100))
}

// prepared parse of an input (one per simplify flag), shared across option sets
type prepared struct {
	f      *syntax.File
	shape  [2]string // by minify
	hasSh  [2]bool
	coms   []string
	comsOK bool
}

func (p *prepared) shapeFor(minify bool) string {
	i := 0
	if minify {
		i = 1
	}
	if !p.hasSh[i] {
		p.shape[i] = Shape(p.f, minify)
		p.hasSh[i] = true
	}
	return p.shape[i]
}

func prepare(in Input, simplify bool) (*prepared, error) {
	f, err := Parse(in.Src, in.Lang, true)
	if err != nil {
		return nil, err
	}
	if simplify {
		if err := Simplify(f); err != nil {
			return nil, err
		}
	}
	return &prepared{f: f}, nil
}

// ---------------------------------------------------------------- C01

func CheckC01(c Case, p *prepared) []Failure {
	var fails []Failure
	add := func(clause, detail string) {
		fails = append(fails, Failure{Prop: "C01", Clause: clause, Detail: trunc(detail, 700)})
	}
	pr := c.Opt.Printer()
	out, err := Print(pr, p.f)
	if c.Opt.Refused() {
		if err == nil {
			add("refusal_missing", "Minify+SingleLine printed without error")
		} else if strings.HasPrefix(err.Error(), "PANIC") {
			add("print_panic", err.Error())
		}
		return fails
	}
	if err != nil {
		add("print_error", err.Error())
		return fails
	}
	f2, err := Parse(out, c.In.Lang, true)
	if err != nil {
		add("reparse", fmt.Sprintf("%v; out=%q", err, trunc(out, 400)))
		return fails
	}
	if s1, s2 := p.shapeFor(c.Opt.Minify), Shape(f2, c.Opt.Minify); s1 != s2 {
		add("shape", fmt.Sprintf("out=%q diff %s", trunc(out, 300), firstDiff(s1, s2)))
	}
	if !c.SubNodes {
		return fails
	}
	// every Stmt, Command and command-argument Word printed on its own
	nsub := 0
	Visit(p.f, func(x any) {
		if len(fails) > 3 || nsub > 400 {
			return
		}
		switch x := x.(type) {
		case *syntax.Stmt:
			nsub++
			o, err := Print(pr, x)
			if err != nil {
				add("sub_stmt_print_error", err.Error())
				return
			}
			g, err := Parse(o, c.In.Lang, true)
			if err != nil {
				add("sub_stmt_reparse", fmt.Sprintf("%v; out=%q", err, trunc(o, 300)))
				return
			}
			if len(g.Stmts) != 1 {
				add("sub_stmt_shape", fmt.Sprintf("%d statements; out=%q", len(g.Stmts), trunc(o, 300)))
				return
			}
			if a, b := Shape(x, c.Opt.Minify), Shape(g.Stmts[0], c.Opt.Minify); a != b {
				add("sub_stmt_shape", fmt.Sprintf("out=%q diff %s", trunc(o, 300), firstDiff(a, b)))
			}
			if x.Cmd != nil {
				o, err := Print(pr, x.Cmd)
				if err != nil {
					add("sub_cmd_print_error", err.Error())
					return
				}
				g, err := Parse(o, c.In.Lang, true)
				if err != nil {
					add("sub_cmd_reparse", fmt.Sprintf("%v; out=%q", err, trunc(o, 300)))
					return
				}
				if len(g.Stmts) != 1 || g.Stmts[0].Negated || g.Stmts[0].Background || g.Stmts[0].Coprocess || g.Stmts[0].Disown || len(g.Stmts[0].Redirs) > 0 || g.Stmts[0].Cmd == nil {
					add("sub_cmd_shape", fmt.Sprintf("not a bare command; out=%q", trunc(o, 300)))
					return
				}
				if a, b := Shape(x.Cmd, c.Opt.Minify), Shape(g.Stmts[0].Cmd, c.Opt.Minify); a != b {
					add("sub_cmd_shape", fmt.Sprintf("out=%q diff %s", trunc(o, 300), firstDiff(a, b)))
				}
			}
		case *syntax.CallExpr:
			for i, w := range x.Args {
				if i == 0 {
					continue // the command name is not an argument
				}
				nsub++
				o, err := Print(pr, w)
				if err != nil {
					add("sub_word_print_error", err.Error())
					return
				}
				// re-parse in argument position
				g, err := Parse("x "+o, c.In.Lang, true)
				if err != nil {
					add("sub_word_reparse", fmt.Sprintf("%v; out=%q", err, trunc(o, 300)))
					return
				}
				var got *syntax.Word
				if len(g.Stmts) == 1 && len(g.Stmts[0].Redirs) == 0 {
					if ce, ok := g.Stmts[0].Cmd.(*syntax.CallExpr); ok && len(ce.Args) == 2 && len(ce.Assigns) == 0 {
						got = ce.Args[1]
					}
				}
				if got == nil {
					add("sub_word_shape", fmt.Sprintf("not a single argument word; out=%q", trunc(o, 300)))
					return
				}
				if a, b := Shape(w, c.Opt.Minify), Shape(got, c.Opt.Minify); a != b {
					add("sub_word_shape", fmt.Sprintf("out=%q diff %s", trunc(o, 300), firstDiff(a, b)))
				}
			}
		}
	})
	return fails
}

// ---------------------------------------------------------------- C02

func CheckC02(c Case, p *prepared) (fails []Failure, skipped bool) {
	if c.Opt.KeepPad || c.Opt.Refused() {
		return nil, true
	}
	pr := c.Opt.Printer()
	out1, err := Print(pr, p.f)
	if err != nil {
		return nil, true // C01's business
	}
	f2, err := Parse(out1, c.In.Lang, true)
	if err != nil {
		return nil, true // C01's business
	}
	if c.Simplify {
		Simplify(f2)
	}
	out2, err := Print(pr, f2)
	if err != nil {
		return []Failure{{Prop: "C02", Clause: "second_print_error", Detail: err.Error()}}, false
	}
	if out1 != out2 {
		// failure signature: does the second output still denote the same tree and comments (layout only)?
		sameTree := false
		if f3, err := Parse(out2, c.In.Lang, true); err == nil {
			sameTree = Shape(f3, c.Opt.Minify) == Shape(f2, c.Opt.Minify) && eqStrs(Comments(f3), Comments(f2))
		}
		return []Failure{{Prop: "C02", Clause: "idempotent", Detail: trunc(fmt.Sprintf("1st=%q 2nd=%q", trunc(out1, 300), trunc(out2, 300)), 700), Class: classC02(c, p, out1, out2, sameTree)}}, false
	}
	return nil, false
}

// ---------------------------------------------------------------- C05

func eqStrs(a, b []string) bool {
	if len(a) != len(b) {
		return false
	}
	for i := range a {
		if a[i] != b[i] {
			return false
		}
	}
	return true
}

// commentsInText: independent, text-level: every comment "#"+text must end a line of the
// output, in order, on non-decreasing lines (an inline `# c` backquote comment ends in "`").
func commentsInText(out string, coms []string) (bool, string) {
	lines := strings.Split(out, "\n")
	li := 0
	for _, c := range coms {
		want := "#" + c
		found := false
		for ; li < len(lines); li++ {
			l := strings.TrimRightFunc(lines[li], unicode.IsSpace) // "trailing whitespace aside"
			if strings.HasSuffix(l, want) || strings.Contains(l, want+"`") {
				found = true
				break
			}
		}
		if !found {
			return false, c
		}
		// the same line may hold only one ordinary comment; advance unless backquote-inline
		if !strings.Contains(lines[li], want+"`") {
			li++
		}
	}
	return true, ""
}

func CheckC05(c Case, p *prepared) (fails []Failure, skipped bool) {
	if c.Opt.Refused() {
		return nil, true
	}
	if !p.comsOK {
		p.coms = Comments(p.f)
		p.comsOK = true
	}
	pr := c.Opt.Printer()
	out, err := Print(pr, p.f)
	if err != nil {
		return nil, true
	}
	f2, err := Parse(out, c.In.Lang, true)
	if err != nil {
		return nil, true
	}
	c2 := Comments(f2)
	add := func(clause, detail string) {
		fails = append(fails, Failure{Prop: "C05", Clause: clause, Detail: trunc(detail, 700)})
	}
	// pinned regression inputs state which comments their source contains
	if exp, ok := ExpectedComments[c.In.Src]; ok && !eqStrs(p.coms, exp) {
		add("source_comments", fmt.Sprintf("the source contains the comments %q but Parse returned %q", exp, p.coms))
		return fails, false
	}
	if c.Opt.Minify {
		var want []string
		for _, cm := range collectComments(p.f) {
			if cm.Hash.Line() == 1 && cm.Hash.Col() == 1 && fileutil.Shebang([]byte("#"+cm.Text)) != "" {
				want = []string{strings.TrimRightFunc(cm.Text, unicode.IsSpace)}
			}
		}
		if !eqStrs(c2, want) {
			if len(c2) > len(want) {
				add("minify_keeps_comment", fmt.Sprintf("want %q got %q out=%q", want, c2, trunc(out, 300)))
			} else {
				add("minify_drops_shebang", fmt.Sprintf("want %q got %q out=%q", want, c2, trunc(out, 300)))
			}
		}
		return fails, false
	}
	if !eqStrs(p.coms, c2) {
		add("comments_kept", fmt.Sprintf("want %q got %q out=%q", p.coms, c2, trunc(out, 300)))
		fails[len(fails)-1].Class = classC05(c, p, c2)
		return fails, false
	}
	if ok, miss := commentsInText(out, p.coms); !ok {
		add("comment_text_in_output", fmt.Sprintf("comment %q does not end a line of the output (in order); out=%q", miss, trunc(out, 300)))
	}
	return fails, false
}

func collectComments(n syntax.Node) []*syntax.Comment {
	var out []*syntax.Comment
	Visit(n, func(x any) {
		if c, ok := x.(*syntax.Comment); ok {
			out = append(out, c)
		}
	})
	return out
}

// ---------------------------------------------------------------- driver

type Plan struct {
	Prop string
	Tier string
	Seed uint64
	NMut int
	NGen int
	J    int
}

type Summary struct {
	Evaluations int            `json:"evaluations"`
	Skipped     int            `json:"skipped"`
	Inputs      int            `json:"inputs"`
	ByKind      map[string]int `json:"by_kind"`
	Enum        map[string]int `json:"enum"`
	OptRows     int            `json:"opt_rows"`
	OptAll      int            `json:"opt_all"`
	Failures    int            `json:"failures"`
	ByClass     map[string]int `json:"by_class"`
	SubNodeRuns int            `json:"subnode_runs"`
}

const NSlices = 8

// casesFor lists the (simplify, optset, subnodes) triples visited for an input at a tier.
//
// Fixed enumeration (what thorough visits):
//   corpus input  x every option set (9 x 2^7, 2^6 for C02) x simplify off/on; sub-nodes on the pairwise rows
//   mut/gen input x the pairwise rows x simplify off/on; sub-nodes on every row
// Quick visits, for seed s:
//   corpus input i: every pairwise row with simplify = (i+row+s) odd?  plus the option sets c with
//                   (i*7+c) mod 97 == s mod 97 (a rotating 1% of all combinations), sub-nodes on row (i+s) mod rows
//   mut/gen inputs of slice s mod 8: the pairwise rows with simplify alternating
func casesFor(pl Plan, idx int, in Input, rows, all []OptSet) []Case {
	var out []Case
	thorough := pl.Tier == "thorough"
	s := int(pl.Seed % 1000003)
	if in.Kind == "corpus" {
		if thorough {
			rowset := map[OptSet]bool{}
			for _, o := range rows {
				rowset[o] = true
			}
			for _, o := range all {
				for _, simp := range []bool{false, true} {
					out = append(out, Case{In: in, Simplify: simp, Opt: o, SubNodes: rowset[o]})
				}
			}
			return out
		}
		for ri, o := range rows {
			out = append(out, Case{In: in, Simplify: (idx+ri+s)%2 == 1, Opt: o, SubNodes: ri == (idx+s)%len(rows)})
		}
		for ci, o := range all {
			if (idx*7+ci)%97 == s%97 {
				out = append(out, Case{In: in, Simplify: (idx+ci+s)%2 == 0, Opt: o})
			}
		}
		return out
	}
	for ri, o := range rows {
		if thorough {
			out = append(out, Case{In: in, Simplify: false, Opt: o, SubNodes: true})
			out = append(out, Case{In: in, Simplify: true, Opt: o, SubNodes: true})
		} else {
			out = append(out, Case{In: in, Simplify: (idx+ri+s)%2 == 1, Opt: o, SubNodes: ri == (idx+s)%len(rows)})
		}
	}
	return out
}

// Run drives one property's search and emits failures and a summary as JSON lines.
func Run(pl Plan) {
	keepPad := pl.Prop == "C01"
	rows := PairwiseOptSets(keepPad)
	all := AllOptSets(keepPad)
	eo := EnumOpts{NMut: pl.NMut, NGen: pl.NGen}
	if pl.Tier != "thorough" {
		eo.NSlices = NSlices
		eo.Slice = int(pl.Seed % NSlices)
	}
	if pl.J <= 0 {
		pl.J = runtime.NumCPU()
		if pl.J > 12 {
			pl.J = 12
		}
	}
	type job struct {
		idx int
		in  Input
	}
	jobs := make(chan job, 256)
	var mu sync.Mutex
	sum := Summary{ByKind: map[string]int{}, ByClass: map[string]int{}, OptRows: len(rows), OptAll: len(all)}
	emitted := 0
	seenClassInput := map[string]bool{}
	classInputs := map[string]int{}
	classCap := 60
	if v, err := strconv.Atoi(os.Getenv("HXFMT_CLASS_INPUTS")); err == nil && v > 0 {
		classCap = v
	}
	var wg sync.WaitGroup
	for w := 0; w < pl.J; w++ {
		wg.Add(1)
		go func() {
			defer wg.Done()
			for j := range jobs {
				var preps [2]*prepared
				evals, skipped, subs, nshrunk := 0, 0, 0, 0
				var fails []Failure
				for _, c := range casesFor(pl, j.idx, j.in, rows, all) {
					si := 0
					if c.Simplify {
						si = 1
					}
					if preps[si] == nil {
						p, err := prepare(j.in, c.Simplify)
						if err != nil {
							if c.Simplify {
								fails = append(fails, Failure{Prop: pl.Prop, Clause: "simplify_panic", Detail: err.Error()})
							}
							skipped++
							continue
						}
						preps[si] = p
					}
					var fs []Failure
					var sk bool
					switch pl.Prop {
					case "C01":
						fs = CheckC01(c, preps[si])
						for i := range fs {
							fs[i].Class = classC01(c, preps[si], fs[i])
						}
						if c.SubNodes {
							subs++
						}
					case "C02":
						fs, sk = CheckC02(c, preps[si])
					case "C05":
						fs, sk = CheckC05(c, preps[si])
					}
					if sk {
						skipped++
						continue
					}
					evals++
					for _, f := range fs {
						f.Prop = pl.Prop
						f.ID, f.Kind, f.Lang = j.in.ID, j.in.Kind, j.in.Lang.String()
						f.Src, f.SrcText = hx.Hex(j.in.Src), trunc(j.in.Src, 300)
						f.Opts, f.Simplify = c.Opt.String(), c.Simplify
						if f.Class == "" && nshrunk < 3 && len(j.in.Src) < 1500 {
							nshrunk++
							cc := c
							cc.SubNodes = strings.HasPrefix(f.Clause, "sub_")
							sh := Shrink(pl.Prop, cc, f.Clause, f.Class)
							f.Shrunk, f.ShrunkTx = hx.Hex(sh), sh
						}
						fails = append(fails, f)
					}
				}
				mu.Lock()
				sum.Evaluations += evals
				sum.Skipped += skipped
				sum.SubNodeRuns += subs
				sum.Inputs++
				sum.ByKind[j.in.Kind]++
				for _, f := range fails {
					sum.Failures++
					k := f.Class
					if k == "" {
						k = "UNCLASSIFIED:" + f.Clause
					}
					sum.ByClass[k]++
					// bound the output: per class the first failure of each of at most 60 distinct inputs
					// (HXFMT_CLASS_INPUTS overrides, for exploration), all unclassified up to 400
					first := false
					if f.Class != "" && !seenClassInput[k+"\x00"+f.ID] && classInputs[k] < classCap {
						seenClassInput[k+"\x00"+f.ID] = true
						classInputs[k]++
						first = true
					}
					if first || (f.Class == "" && emitted < 400) {
						hx.Emit(f)
						if f.Class == "" {
							emitted++
						}
					}
				}
				mu.Unlock()
			}
		}()
	}
	idx := 0
	sum.Enum = Enumerate(eo, func(in Input) {
		jobs <- job{idx, in}
		idx++
	})
	close(jobs)
	wg.Wait()
	hx.Emit(map[string]any{"summary": sum})
	hx.Flush()
	if os.Getenv("HXSYN_DEBUG") != "" {
		fmt.Fprintf(os.Stderr, "%+v\n", sum)
	}
}

// Main is the command-line entry shared by cmd/c01, cmd/c02, cmd/c05.
func Main(prop string, o hx.Opts) {
	switch o.Mode {
	case "search":
		nmut, ngen := 12, 1500
		if o.N != 1000 { // -n overrides the number of mutations per corpus item (exploration only)
			nmut = o.N
		}
		Run(Plan{Prop: prop, Tier: o.Tier, Seed: o.Seed, NMut: nmut, NGen: ngen})
	case "show":
		// show -in FILE [lang] [opts like i2,bn,sl] [simplify]: print what each check sees (exploration / replay)
		b, err := os.ReadFile(o.In)
		if err != nil {
			panic(err)
		}
		lang, optStr, simp := "bash", "i0", false
		for _, a := range o.Args {
			switch {
			case a == "simplify":
				simp = true
			case a == "bash" || a == "posix" || a == "mksh" || a == "bats" || a == "zsh":
				lang = a
			default:
				optStr = a
			}
		}
		Show(prop, string(b), lang, optStr, simp)
	case "words":
		Words(o.Seed, o.N, o.Tier != "thorough")
	case "queue":
		Queue(o.Seed, o.N)
	case "opts":
		for _, r := range PairwiseOptSets(prop == "C01") {
			hx.Emit(map[string]any{"row": r.String()})
		}
	case "gen":
		for i := 0; i < o.N; i++ {
			for _, l := range Langs {
				src := Generate(l, uint64(i)*8)
				_, err := Parse(src, l, true)
				hx.Emit(map[string]any{"lang": l.String(), "src": src, "ok": err == nil, "err": fmt.Sprint(err)})
			}
		}
	default:
		fmt.Fprintln(os.Stderr, "unknown mode", o.Mode)
		os.Exit(2)
	}
}

// ParseOptSet parses the String() form, e.g. "i2,bn,sl".
func ParseOptSet(s string) OptSet {
	var o OptSet
	for _, t := range strings.Split(s, ",") {
		switch t {
		case "bn":
			o.BinNext = true
		case "ci":
			o.SwCase = true
		case "sr":
			o.SpRedir = true
		case "kp":
			o.KeepPad = true
		case "fn":
			o.FuncNext = true
		case "mn":
			o.Minify = true
		case "sl":
			o.Single = true
		default:
			if len(t) == 2 && t[0] == 'i' {
				o.Indent = uint(t[1] - '0')
			}
		}
	}
	return o
}

// Show replays one case and prints everything observed, one JSON object.
func Show(prop, src, lang, optStr string, simp bool) {
	in := Input{ID: "show", Kind: "show", Src: src, Lang: LangByName(lang)}
	c := Case{In: in, Simplify: simp, Opt: ParseOptSet(optStr), SubNodes: true}
	res := map[string]any{"src": src, "lang": lang, "opts": c.Opt.String(), "simplify": simp}
	p, err := prepare(in, simp)
	if err != nil {
		res["parse_error"] = err.Error()
		hx.Emit(res)
		return
	}
	out, err := Print(c.Opt.Printer(), p.f)
	res["out1"] = out
	if err != nil {
		res["print_error"] = err.Error()
	}
	if f2, err := Parse(out, in.Lang, true); err == nil {
		if simp {
			Simplify(f2)
		}
		out2, _ := Print(c.Opt.Printer(), f2)
		res["out2"] = out2
		res["comments_out"] = Comments(f2)
	} else {
		res["reparse_error"] = err.Error()
	}
	res["comments_in"] = Comments(p.f)
	var fails []Failure
	fs := CheckC01(c, p)
	for i := range fs {
		fs[i].Class = classC01(c, p, fs[i])
	}
	fails = append(fails, fs...)
	fs, _ = CheckC02(c, p)
	fails = append(fails, fs...)
	fs, _ = CheckC05(c, p)
	fails = append(fails, fs...)
	res["failures"] = fails
	hx.Emit(res)
}
