// Package hxfmt holds what the C01/C02/C05 harnesses share: the corpus
// extracted from the repository's test tables (as data), the printer option
// space and its pairwise covering array, the grammar generator, the fixed
// mutation enumeration, the structural normal form ("norm") of C01, comment
// extraction, and the known-finding class predicates.
package hxfmt

import (
	"bytes"
	"fmt"
	"sort"
	"strings"

	"mvdan.cc/sh/v3/syntax"
)

// OptSet is one printer configuration.
type OptSet struct {
	Indent   uint
	BinNext  bool
	SwCase   bool
	SpRedir  bool
	KeepPad  bool
	FuncNext bool
	Minify   bool
	Single   bool
}

func (o OptSet) String() string {
	var sb strings.Builder
	fmt.Fprintf(&sb, "i%d", o.Indent)
	for _, f := range []struct {
		b bool
		s string
	}{{o.BinNext, "bn"}, {o.SwCase, "ci"}, {o.SpRedir, "sr"}, {o.KeepPad, "kp"}, {o.FuncNext, "fn"}, {o.Minify, "mn"}, {o.Single, "sl"}} {
		if f.b {
			sb.WriteString("," + f.s)
		}
	}
	return sb.String()
}

// Refused reports the documented refusal: Minify and SingleLine together.
func (o OptSet) Refused() bool { return o.Minify && o.Single }

// Printer returns a fresh printer with these options.
func (o OptSet) Printer() *syntax.Printer {
	return syntax.NewPrinter(
		syntax.Indent(o.Indent),
		syntax.BinaryNextLine(o.BinNext),
		syntax.SwitchCaseIndent(o.SwCase),
		syntax.SpaceRedirects(o.SpRedir),
		syntax.KeepPadding(o.KeepPad),
		syntax.FunctionNextLine(o.FuncNext),
		syntax.Minify(o.Minify),
		syntax.SingleLine(o.Single),
	)
}

func (o OptSet) factors() [8]int {
	b := func(x bool) int {
		if x {
			return 1
		}
		return 0
	}
	return [8]int{int(o.Indent), b(o.BinNext), b(o.SwCase), b(o.SpRedir), b(o.KeepPad), b(o.FuncNext), b(o.Minify), b(o.Single)}
}

// AllOptSets enumerates Indent 0..8 x 2^7 flags (2^6 when keepPad is false), in a fixed order.
// The refused pair Minify+SingleLine is included (the refusal itself is checked).
func AllOptSets(keepPad bool) []OptSet {
	var out []OptSet
	for ind := uint(0); ind <= 8; ind++ {
		for m := 0; m < 128; m++ {
			o := OptSet{Indent: ind, BinNext: m&1 != 0, SwCase: m&2 != 0, SpRedir: m&4 != 0, KeepPad: m&8 != 0,
				FuncNext: m&16 != 0, Minify: m&32 != 0, Single: m&64 != 0}
			if o.KeepPad && !keepPad {
				continue
			}
			out = append(out, o)
		}
	}
	return out
}

// PairwiseOptSets is a covering array of strength 2 over the 8 factors
// (Indent has 9 levels), built greedily and deterministically; every pair of
// factor values that can occur together in a non-refused option set occurs in
// some row. One refused row (Minify+SingleLine) is appended so the refusal is
// exercised.
func PairwiseOptSets(keepPad bool) []OptSet {
	var cands []OptSet
	for _, o := range AllOptSets(keepPad) {
		if !o.Refused() {
			cands = append(cands, o)
		}
	}
	type pair struct{ f1, v1, f2, v2 int }
	need := map[pair]bool{}
	for _, o := range cands {
		fs := o.factors()
		for a := 0; a < 8; a++ {
			for b := a + 1; b < 8; b++ {
				need[pair{a, fs[a], b, fs[b]}] = true
			}
		}
	}
	var rows []OptSet
	for len(need) > 0 {
		best, bestN := -1, 0
		for i, o := range cands {
			fs := o.factors()
			n := 0
			for a := 0; a < 8; a++ {
				for b := a + 1; b < 8; b++ {
					if need[pair{a, fs[a], b, fs[b]}] {
						n++
					}
				}
			}
			if n > bestN {
				best, bestN = i, n
			}
		}
		o := cands[best]
		rows = append(rows, o)
		fs := o.factors()
		for a := 0; a < 8; a++ {
			for b := a + 1; b < 8; b++ {
				delete(need, pair{a, fs[a], b, fs[b]})
			}
		}
	}
	// the plain default first (most readable failures), then the array, then the refused pair
	out := []OptSet{{}}
	for _, o := range rows {
		if o != (OptSet{}) {
			out = append(out, o)
		}
	}
	out = append(out, OptSet{Minify: true, Single: true})
	return out
}

// ---------------------------------------------------------------------------

var Langs = []syntax.LangVariant{syntax.LangBash, syntax.LangPOSIX, syntax.LangMirBSDKorn, syntax.LangBats, syntax.LangZsh}

func LangByName(s string) syntax.LangVariant {
	for _, l := range Langs {
		if l.String() == s {
			return l
		}
	}
	panic("unknown lang " + s)
}

// Parse parses panic-safely.
func Parse(src string, l syntax.LangVariant, keepComments bool) (f *syntax.File, err error) {
	defer func() {
		if r := recover(); r != nil {
			f, err = nil, fmt.Errorf("PANIC %v", r)
		}
	}()
	return syntax.NewParser(syntax.Variant(l), syntax.KeepComments(keepComments)).Parse(strings.NewReader(src), "")
}

// Print prints panic-safely.
func Print(p *syntax.Printer, n syntax.Node) (s string, err error) {
	defer func() {
		if r := recover(); r != nil {
			s, err = "", fmt.Errorf("PANIC %v", r)
		}
	}()
	var b bytes.Buffer
	err = p.Print(&b, n)
	return b.String(), err
}

// Simplify applies syntax.Simplify panic-safely.
func Simplify(n syntax.Node) (err error) {
	defer func() {
		if r := recover(); r != nil {
			err = fmt.Errorf("PANIC %v", r)
		}
	}()
	syntax.Simplify(n)
	return nil
}

func sortedKeys(m map[string]bool) []string {
	out := make([]string, 0, len(m))
	for k := range m {
		out = append(out, k)
	}
	sort.Strings(out)
	return out
}
