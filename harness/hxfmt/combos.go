package hxfmt

import (
	"strconv"
	"strings"
)

// ComboInputs is a fixed, systematic enumeration of small programs that combine
// constructs whose printing interacts (the corpus rarely combines them):
//
//	A. a redirection whose word is a command/process substitution ending in `&` or `;`,
//	   directly before `;`/newline + then|do|done|fi|}|esac|), in every compound context;
//	B. two or three here-documents opened on one line (same command, pipeline, list),
//	   with empty / non-empty / expanding bodies and plain, quoted and `<<-` delimiters;
//	C. a comment (+ newline) inserted after each token (and each pair of tokens) of one-line
//	   compound commands: function declarations in all spellings with `{ }` and `( )` bodies,
//	   if/while/for/case, blocks, subshells, lists, with redirections and inside lists;
//	D. comments inside command substitutions inside unquoted here-document bodies, combined
//	   with comments on the operator line and between the here-document and the next statement.
func ComboInputs() []string {
	var out []string
	add := func(s string) { out = append(out, s) }

	// ---- A
	redirs := []string{`>"$(bar &)"`, `>$(bar &)`, `< <(gen &)`, `>"$(bar;)"`, `2>$(a | b &)`, `<<<$(x &)`, `>$(a; b &) 2>&1`, `>>"x$(c &)y"`, `>f`}
	ctxA := []string{
		"if S; then a; fi", "if S\nthen a\nfi", "if a; then S; fi", "if a; then S; else S; fi",
		"while S; do a; done", "while a; do S; done", "until S\ndo\n\ta\ndone", "for i in 1 2; do S; done", "for i in 1 2\ndo S\ndone",
		"{ S; }", "{ S; a; }", "{\n\tS\n}", "(S)", "(S; a)", "S\nbaz", "S; baz", "S && t", "S | t", "! S; t",
		"f() { S; }", "f() {\n\tS\n}\ng", "case x in a) S ;; esac", "case x in a) S ;; b) t ;; esac", "case x in\na)\n\tS\n\t;;\nesac",
		"a=$(S; t)", "echo \"$(S)\" u", "S &\nt", "time S; t",
	}
	for _, r := range redirs {
		for _, c := range ctxA {
			add(strings.ReplaceAll(c, "S", "foo "+r))
			add(strings.ReplaceAll(c, "S", "foo x "+r+" "+r))
		}
	}

	// ---- B
	bodies := []string{"", "bodyX\n", "$v and `w`\n", "two\nlines X\n", "\\\ncont X\n", "\tindented X\n"}
	type dl struct{ op, open string }
	delims := []dl{{"<<", "%s"}, {"<<", "'%s'"}, {"<<-", "%s"}, {"<<", "\\%s"}}
	shapesB := []string{
		"cat H1 H2\nB1B2", "cat H1 H2\nB1B2next", "a H1 | b H2\nB1B2", "a H1 | b H2\nB1B2next", "if a H1 && b H2; then c; fi\nB1B2",
		"a H1 || b H2; c\nB1B2", "{ a H1; b H2; }\nB1B2", "cat H1 H2 H3\nB1B2B3", "a H1 | b H2 | c H3\nB1B2B3next",
		"while a H1; do b H2; done\nB1B2", "f() { a H1; b H2; }\nB1B2", "(a H1; b H2)\nB1B2", "x=$(a H1 | b H2\nB1B2)",
	}
	bi := 0
	for _, sh := range shapesB {
		for d1, dd1 := range delims {
			for d2, dd2 := range delims {
				if d1 != 0 && d2 != 0 && d1 != d2 {
					continue // one non-plain delimiter kind at a time, or the same kind twice
				}
				for k := 0; k < len(bodies); k++ {
					b1 := bodies[(k+bi)%len(bodies)]
					b2 := bodies[k]
					b3 := bodies[(k+1)%len(bodies)]
					bi++
					s := sh
					mk := func(d dl, name string) string { return d.op + strings.ReplaceAll(d.open, "%s", name) }
					body := func(d dl, b, name string) string {
						if d.op == "<<-" {
							b = strings.ReplaceAll("\t"+strings.ReplaceAll(strings.TrimSuffix(b, "\n"), "\n", "\n\t"), "\t\n", "\n")
							if strings.TrimSpace(b) == "" {
								b = ""
							} else {
								b += "\n"
							}
							return strings.ReplaceAll(b, "X", name) + "\t" + name + "\n"
						}
						return strings.ReplaceAll(b, "X", name) + name + "\n"
					}
					s = strings.ReplaceAll(s, "H1", mk(dd1, "E1"))
					s = strings.ReplaceAll(s, "H2", mk(dd2, "E2"))
					s = strings.ReplaceAll(s, "H3", mk(dd1, "E3"))
					s = strings.ReplaceAll(s, "B1", body(dd1, b1, "E1"))
					s = strings.ReplaceAll(s, "B2", body(dd2, b2, "E2"))
					s = strings.ReplaceAll(s, "B3", body(dd1, b3, "E3"))
					s = strings.ReplaceAll(s, "next", "next cmd\n")
					add(s)
				}
			}
		}
	}

	// ---- C
	templates := []string{
		"foo ( ) { bar ; }", "foo ( ) ( bar )", "function foo { bar ; }", "function foo ( ) { bar ; }", "function foo ( ) ( bar )",
		"foo ( ) { bar ; } > f", "a ; foo ( ) { bar ; } ; b", "a && foo ( ) { bar ; baz ; }", "foo ( ) { if a ; then b ; fi ; }",
		"if a ; then b ; else c ; fi", "if a ; then b ; elif c ; then d ; fi", "while a ; do b ; done", "until a ; do b ; c ; done > f",
		"for i in 1 2 ; do b ; done", "for i ; do b ; done", "case x in a ) b ;; c ) d ;; esac", "{ a ; b ; }", "( a ; b )", "{ a ; } > f",
		"a && b | c", "a | b && c ; d", "x = ( a b )", "! a ; b", "a > f b < g", "$( a ; b )", "echo $( a ) b", "a & b &",
	}
	for _, t := range templates {
		toks := strings.Fields(t)
		join := func(ins map[int]string) string {
			var sb strings.Builder
			for i, tk := range toks {
				sb.WriteString(tk)
				if c, ok := ins[i]; ok {
					sb.WriteString(c)
				} else if i+1 < len(toks) {
					// tokens that must touch their neighbour
					nx := toks[i+1]
					if (tk == "(" && nx == ")") || tk == "$(" || (nx == ")" && tk != "(" && !strings.Contains(t, "case")) || tk == "=" || nx == "=" {
						continue
					}
					if tk == "foo" && nx == "(" {
						continue
					}
					sb.WriteString(" ")
				}
			}
			return strings.ReplaceAll(sb.String(), "= (", "=(")
		}
		for i := range toks {
			add(join(map[int]string{i: " # c" + strconv.Itoa(i) + "\n"}))
			add(join(map[int]string{i: "\n# c" + strconv.Itoa(i) + "\n"}))
			for j := i + 1; j < len(toks); j++ {
				if (i+j)%3 == 0 { // a third of the pairs
					add(join(map[int]string{i: " # c" + strconv.Itoa(i) + "\n", j: " # d" + strconv.Itoa(j) + "\n"}))
				}
			}
		}
	}

	// ---- D
	inner := []string{"$( # inner\nfoo\n)", "$(foo # inner\n)", "$(\n\t# inner\n\tfoo\n)", "`# inner`", "$( # i1\n# i2\nfoo | bar # i3\n)", "x $(a # inner\n) y $(b # in2\n) z"}
	opline := []string{"", " # op"}
	after := []string{"", "# after\n", "# after\n\n# after2\n", "\n# after\n"}
	cmds := []string{"cat <<EOF%s\n%s\nEOF\n%sbar", "cat <<EOF%s\nbefore\n%s\nlast\nEOF\n%sbar # t", "if a; then\n\tcat <<EOF%s\n%s\nEOF\n\t%sbar\nfi",
		"cat <<-EOF%s\n\t%s\n\tEOF\n%sbar", "a <<EOF%s | b\n%s\nEOF\n%sbar", "cat <<EOF%s <<F\n%s\nEOF\nsecond\nF\n%sbar", "{\n\tcat <<EOF%s\n%s\nEOF\n\t%s}\n# end"}
	for _, c := range cmds {
		for _, in := range inner {
			for _, o := range opline {
				for _, a := range after {
					s := strings.Replace(c, "%s", o, 1)
					s = strings.Replace(s, "%s", in, 1)
					s = strings.Replace(s, "%s", a, 1)
					add(s)
				}
			}
		}
	}
	// ---- E: a heredoc operator WITH an inline comment in every statement position (last of a
	// nested list, right-hand side of | && ||, after time/coproc/!, in a function body, with the
	// redirect on a compound command), combined with zero to two further comments before the closer
	hd := []string{"cat <<EOF # c1\nbody\nEOF\n", "cat <<-EOF # c1\n\tbody\n\tEOF\n", "cat <<'EOF' >f # c1\nbody $x\nEOF\n", "cat <<A <<B # c1\nba\nA\nbb\nB\n", "cat <<EOF # c1\nEOF\n"}
	more := []string{"", "# c2\n", "# c2\n\n# c3\n", "\n# c2\n"}
	posE := []string{
		"H", "H%sbar\n", "{\nH%s}\n", "{\n\tfoo\n\tH%s}\n", "(\nH%s)\n", "(foo; H%s)\n", "for i in 1; do\nH%sdone\n", "while a; do\n\tb\n\tH%sdone\n",
		"if a; then\nH%sfi\n", "if a; then\n\tb\nelse\nH%sfi\n", "if H%sthen b; fi\n", "case x in\na)\nH%s;;\nesac\n", "case x in\na)\n\tfoo\n\tH%sesac\n",
		"f() {\nH%s}\n", "foo | H%sbar\n", "foo && H%s", "foo ||\nH%s", "foo | bar | H%s", "{\nfoo | H%s}\n", "if a; then\n\tfoo && H%sfi\n",
		"time H%s", "! H%s", "x=$(\nH%s)\n", "echo \"$(\nH%s)\" y\n", "{\nH%s} >g # c9\n", "f() {\nH%s} >g\n", "a; H%s", "foo &\nH%s",
	}
	for _, pe := range posE {
		for _, h := range hd {
			for _, m := range more {
				s := strings.Replace(pe, "H", h, 1)
				s = strings.Replace(s, "%s", m, 1)
				add(s)
			}
		}
	}
	// the same positions with an inline comment but no heredoc, and comment-only bodies
	for _, pe := range posE {
		for _, m := range more {
			s := strings.Replace(pe, "H", "cat f # c1\n", 1)
			add(strings.Replace(s, "%s", m, 1))
			s = strings.Replace(pe, "H", "# only\n", 1)
			add(strings.Replace(s, "%s", m, 1))
		}
	}
	// comments next to keywords that take a statement, and bytes the tabwriter treats specially
	for _, s := range []string{
		"time # c\ncmd", "time -p # c\ncmd", "time cat f # c\nx", "time cat <<EOF # c\nb\nEOF\n", "! # c\ncmd", "coproc cat f # c\nx",
		"coproc cat <<EOF # c\nb\nEOF\n", "coproc { a; } # c\nx", "{ # c\n}", "( # c\n)",
		"foo() { # c1\n\tbar\n} <<EOF # c2\nbody\nEOF\n", "foo() { # c1\n\tbar\n} >f # c2\n", "{ # c1\n\ta\n} <<EOF # c2\nb\nEOF\n# c3\n",
		"foo #!/usr/bin/env bash", "foo #!/usr/bin/env bash\nbar", "exec sh \"$0\" #!/bin/sh\nx", " #!/bin/sh\nfoo", "\t#!/bin/bash\nfoo", "foo # plain\nbar",
		"foo; bar #!/bin/sh", "{ a; } #!/bin/sh\nb", "#!/bin/sh #!/bin/sh\nfoo", "#!/bin/sh\nfoo #!/bin/sh", "x=1 #!/usr/bin/env sh\ny", "$(a) #!/bin/sh",
		"foo # a\vb\nbar # c\fd\nbaz", "# x\vy\nfoo", "foo # tab\there\nbar # plain", "foo # a\rb\nbar",
	} {
		add(s)
	}
	return out
}
