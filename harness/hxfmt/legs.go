package hxfmt

import (
	"math/rand/v2"
	"strings"
	"unicode"

	"mvdan.cc/sh/v3/fileutil"
	"mvdan.cc/sh/v3/syntax"
	"verifharness/hx"
)

// ---------------------------------------------------------------------------
// Code leg, level W: fragment words built directly as syntax trees (well-formed by
// construction), printed by the real Printer and re-parsed by the real Parser.
// The check evaluates the Coq model (print_word / lex_word / norm_word) on the same
// words inside the kernel and compares bytes and parts.

// JPart is the exported form of a word part: K = "L" | "S" | "D" | "P".
type JPart struct {
	K      string  `json:"k"`
	Dollar bool    `json:"dollar,omitempty"`
	Short  bool    `json:"short,omitempty"`
	V      string  `json:"v"` // hex: Lit/SglQuoted value, ParamExp name
	Parts  []JPart `json:"parts,omitempty"`
}

type WordCase struct {
	Parts   []JPart `json:"parts"`
	Minify  bool    `json:"minify"`
	Delim   string  `json:"delim"`    // hex, one byte
	Out     string  `json:"out"`      // hex: Printer output for the word
	Reparse []JPart `json:"reparse"`  // parts the real parser reads back (nil = not in fragment / error)
	Err     string  `json:"err,omitempty"`
	Src     string  `json:"src"` // "gen" | "corpus"
}

var plainLit = []string{"a", "b", "foo", "x1", "_", "-", ".", "/", ":", "=", "+", "%", ",", "@", "é", "1", "0", "y", "A", "Z9", "]", "{", "}", "~", "*", "?", "^", "#"}
var escLit = []string{"\\ ", "\\$", "\\\"", "\\'", "\\\\", "\\a", "\\;", "\\&", "\\(", "\\`", "\\#", "\\|", "\\<"}
var qPlain = []string{"a", " ", "b c", "'", ";", "#", "(", "|", "y", "_", "1", "-", "\n", "é", "}", "{"}
var qEsc = []string{"\\\"", "\\$", "\\\\", "\\`", "\\a", "\\ "}
var names = []string{"x", "foo", "_", "a1", "PATH", "x_y", "1", "0", "9", "10", "123", "@", "*", "#", "?", "!", "$", "-"}

func genLitBody(r *rand.Rand) string {
	var sb strings.Builder
	n := 1 + r.IntN(3)
	for i := 0; i < n; i++ {
		if r.IntN(4) == 0 {
			sb.WriteString(hx.Pick(r, escLit))
		} else {
			sb.WriteString(hx.Pick(r, plainLit))
		}
	}
	return sb.String()
}

func isNameByte(c byte) bool {
	return c == '_' || (c >= 'a' && c <= 'z') || (c >= 'A' && c <= 'Z') || (c >= '0' && c <= '9')
}

func genParam(r *rand.Rand) *syntax.ParamExp {
	n := hx.Pick(r, names)
	short := r.IntN(2) == 0
	if len(n) > 1 && !syntax.ValidName(n) {
		short = false // $10 is $1 followed by 0
	}
	return &syntax.ParamExp{Short: short, Param: &syntax.Lit{Value: n}}
}

// GenWord builds a well-formed fragment word.
func GenWord(r *rand.Rand) *syntax.Word {
	w := &syntax.Word{}
	n := 1 + r.IntN(4)
	for i := 0; i < n; i++ {
		last := i == n-1
		var prev syntax.WordPart
		if len(w.Parts) > 0 {
			prev = w.Parts[len(w.Parts)-1]
		}
		k := r.IntN(10)
		switch {
		case k < 3: // Lit
			if _, ok := prev.(*syntax.Lit); ok {
				k = 5
				break
			}
			v := genLitBody(r)
			if i == 0 && v[0] == '#' {
				v = "a" + v
			}
			if pe, ok := prev.(*syntax.ParamExp); ok && pe.Short && syntax.ValidName(pe.Param.Value) && isNameByte(v[0]) {
				v = "-" + v
			}
			if prev != nil && v[0] == '#' {
				v = "+" + v // hash_ok: see Syntax/Word.v
			}
			if last && r.IntN(6) == 0 {
				v += "\\" // lone trailing backslash: only possible at the very end
			}
			w.Parts = append(w.Parts, &syntax.Lit{Value: v})
			continue
		}
		switch {
		case k < 5:
			if r.IntN(2) == 0 {
				w.Parts = append(w.Parts, &syntax.SglQuoted{Value: hx.Pick(r, []string{"", "a", "a b", "$x", "\\", "\"", "a\nb", "#", "\\\\", "${y}"})})
			} else {
				w.Parts = append(w.Parts, &syntax.SglQuoted{Dollar: true, Value: hx.Pick(r, []string{"", "a", "a\\nb", "\\'", "\\\\", "x\\'y", "\"", "$x"})})
			}
		case k < 8:
			dq := &syntax.DblQuoted{Dollar: r.IntN(5) == 0}
			m := r.IntN(4)
			for j := 0; j < m; j++ {
				var qprev syntax.WordPart
				if len(dq.Parts) > 0 {
					qprev = dq.Parts[len(dq.Parts)-1]
				}
				if _, ok := qprev.(*syntax.Lit); !ok && r.IntN(2) == 0 {
					var sb strings.Builder
					for t := 1 + r.IntN(2); t > 0; t-- {
						if r.IntN(4) == 0 {
							sb.WriteString(hx.Pick(r, qEsc))
						} else {
							sb.WriteString(hx.Pick(r, qPlain))
						}
					}
					v := sb.String()
					if pe, ok := qprev.(*syntax.ParamExp); ok && pe.Short && syntax.ValidName(pe.Param.Value) && isNameByte(v[0]) {
						v = "-" + v
					}
					dq.Parts = append(dq.Parts, &syntax.Lit{Value: v})
				} else {
					dq.Parts = append(dq.Parts, genParam(r))
				}
			}
			w.Parts = append(w.Parts, dq)
		default:
			w.Parts = append(w.Parts, genParam(r))
		}
	}
	return w
}

func exportParts(parts []syntax.WordPart, inDq bool) ([]JPart, bool) {
	out := []JPart{}
	for _, p := range parts {
		switch p := p.(type) {
		case *syntax.Lit:
			out = append(out, JPart{K: "L", V: hx.Hex(p.Value)})
		case *syntax.SglQuoted:
			if inDq {
				return nil, false
			}
			out = append(out, JPart{K: "S", Dollar: p.Dollar, V: hx.Hex(p.Value)})
		case *syntax.DblQuoted:
			if inDq {
				return nil, false
			}
			sub, ok := exportParts(p.Parts, true)
			if !ok {
				return nil, false
			}
			out = append(out, JPart{K: "D", Dollar: p.Dollar, Parts: sub})
		case *syntax.ParamExp:
			if !IsSimpleParam(p) {
				return nil, false
			}
			out = append(out, JPart{K: "P", Short: p.Short, V: hx.Hex(p.Param.Value)})
		default:
			return nil, false
		}
	}
	return out, true
}

// inFragment: additional conditions of wf_word that a parsed corpus word must satisfy
// (a parsed word always does, except for literals containing an unescaped `$`, a
// backquote-free check, escaped newlines, or a leading '#').
func litOK(v string, inDq bool) bool {
	for i := 0; i < len(v); i++ {
		c := v[i]
		if c == '\\' {
			if i+1 >= len(v) {
				return !inDq // lone trailing backslash
			}
			if v[i+1] == '\n' {
				return false
			}
			i++
			continue
		}
		if c == '$' || c == '`' || c == '[' {
			// '[': the real lexer ends the literal there (array-index lookahead) and starts a new
			// one, yielding adjacent Lits; not modelled, such words are outside the leg
			return false
		}
		if inDq {
			if c == '"' {
				return false
			}
		} else if strings.IndexByte(" \t\n;&|()<>\"'", c) >= 0 {
			return false
		}
	}
	return v != ""
}

func wordInFragment(w *syntax.Word) bool {
	ok := true
	var check func(parts []syntax.WordPart, inDq bool)
	check = func(parts []syntax.WordPart, inDq bool) {
		for i, p := range parts {
			switch p := p.(type) {
			case *syntax.Lit:
				if !litOK(p.Value, inDq) || (strings.HasSuffix(p.Value, "\\") && oddBS(p.Value) && i != len(parts)-1) {
					ok = false
				}
			case *syntax.SglQuoted:
			case *syntax.DblQuoted:
				if inDq {
					ok = false
				} else {
					check(p.Parts, true)
				}
			case *syntax.ParamExp:
				if !IsSimpleParam(p) {
					ok = false
				}
			default:
				ok = false
			}
		}
	}
	check(w.Parts, false)
	for i, p := range w.Parts {
		if l, isLit := p.(*syntax.Lit); isLit && i > 0 && strings.HasPrefix(l.Value, "#") {
			ok = false
		}
	}
	if l, isLit := w.Parts[0].(*syntax.Lit); isLit && strings.HasPrefix(l.Value, "#") {
		ok = false
	}
	return ok
}

func oddBS(v string) bool {
	return (len(v)-len(strings.TrimRight(v, "\\")))%2 == 1
}

var delims = []string{" ", "\t", "\n", ";", "&", "|", ")"}

func wordCase(w *syntax.Word, minify bool, delim string, src string) (WordCase, bool) {
	parts, ok := exportParts(w.Parts, false)
	if !ok {
		return WordCase{}, false
	}
	c := WordCase{Parts: parts, Minify: minify, Delim: hx.Hex(delim), Src: src}
	out, err := Print(syntax.NewPrinter(syntax.Minify(minify)), w)
	if err != nil {
		c.Err = err.Error()
		return c, true
	}
	c.Out = hx.Hex(out)
	// re-parse in argument position, followed by the delimiter (a ')' needs its '(')
	text := "x " + out + delim + "y\n"
	if delim == ")" {
		text = "(x " + out + ")\n"
	}
	f, err := Parse(text, syntax.LangBash, false)
	if err != nil {
		c.Err = err.Error()
		return c, true
	}
	var got *syntax.Word
	Visit(f, func(x any) {
		if ce, ok := x.(*syntax.CallExpr); ok && got == nil && len(ce.Args) >= 2 {
			if l := ce.Args[0].Lit(); l == "x" {
				got = ce.Args[1]
			}
		}
	})
	if got == nil {
		c.Err = "re-parse did not yield one argument word"
		return c, true
	}
	rp, ok := exportParts(got.Parts, false)
	if !ok {
		c.Err = "re-parsed word has parts outside the fragment"
		return c, true
	}
	c.Reparse = rp
	return c, true
}

// Words emits n generated word cases plus the fragment words of the corpus.
func Words(seed uint64, n int, quick bool) {
	r := hx.Rand(seed, 101)
	for i := 0; i < n; i++ {
		w := GenWord(r)
		c, ok := wordCase(w, r.IntN(2) == 0, hx.Pick(r, delims), "gen")
		if ok {
			hx.Emit(c)
		}
	}
	// corpus words: every argument word of the corpus programs (bash) that lies in the fragment
	seen := map[string]bool{}
	cnt := 0
	for _, src := range LoadCorpus() {
		f, err := Parse(src, syntax.LangBash, false)
		if err != nil {
			continue
		}
		Visit(f, func(x any) {
			ce, ok := x.(*syntax.CallExpr)
			if !ok {
				return
			}
			for _, w := range ce.Args {
				if len(w.Parts) == 0 || !wordInFragment(w) {
					continue
				}
				// escaped newlines are reproduced from positions, which the model does not have
				if w.End().Line() > w.Pos().Line() {
					continue
				}
				key, _ := Print(syntax.NewPrinter(), w)
				if seen[key] || len(key) > 200 {
					continue
				}
				seen[key] = true
				// quick tier: a seed-rotated half of the corpus words (the thorough tier takes all)
				if quick && uint64(len(seen))%2 != seed%2 {
					continue
				}
				for _, m := range []bool{false, true} {
					c, ok := wordCase(w, m, delims[cnt%len(delims)], "corpus")
					if ok {
						hx.Emit(c)
						cnt++
					}
				}
			}
		})
	}
}

// ---------------------------------------------------------------------------
// Code leg, comment queue: flat statement lists with comments before / after each
// statement and at the end of the file; the real printer's written comments (read back
// from its output) against the model's print_file.

type JComment struct {
	Text    string `json:"text"` // hex
	Shebang bool   `json:"shebang"`
	At11    bool   `json:"at11"`
}

type JStmtComs struct {
	Before   []JComment `json:"before"`
	Mid      []JComment `json:"mid"`
	After    []JComment `json:"after"`
	NlBefore bool       `json:"nl_before"`
}

type QueueCase struct {
	Src     string      `json:"src"` // hex
	Minify  bool        `json:"minify"`
	Stmts   []JStmtComs `json:"stmts"`
	Last    []JComment  `json:"last"`
	Written []string    `json:"written"` // hex texts of the comments found in the printer's output, in order
	Err     string      `json:"err,omitempty"`
}

func jcom(c syntax.Comment) JComment {
	return JComment{Text: hx.Hex(strings.TrimRightFunc(c.Text, unicode.IsSpace)),
		Shebang: fileutil.Shebang([]byte("#"+c.Text)) != "", At11: c.Hash.Line() == 1 && c.Hash.Col() == 1}
}

func Queue(seed uint64, n int) {
	r := hx.Rand(seed, 105)
	cmds := []string{"foo", "bar a b", "x=1", "echo 'q'", "a | b", "! c", "d &"}
	for i := 0; i < n; i++ {
		var sb strings.Builder
		ncom := 0
		com := func() string {
			ncom++
			return "#" + hx.Pick(r, []string{"", " ", "  "}) + "c" + string(rune('0'+ncom%10)) + hx.Pick(r, []string{"", " x", " ; y", " \t"})
		}
		if r.IntN(3) == 0 {
			sb.WriteString(hx.Pick(r, []string{"#!/bin/sh\n", "#!/usr/bin/env bash\n", "#!/bin/bash -e\n", "#!notashebang\n", "# plain\n", " #!/bin/sh\n"}))
		}
		ns := r.IntN(5)
		for s := 0; s < ns; s++ {
			for k := r.IntN(3); k > 0; k-- {
				sb.WriteString(com() + "\n")
				if r.IntN(4) == 0 {
					sb.WriteString("\n")
				}
			}
			sb.WriteString(hx.Pick(r, cmds))
			switch r.IntN(4) {
			case 0:
				sb.WriteString(" " + com() + "\n")
			case 1:
				if !strings.HasSuffix(sb.String(), "&") {
					sb.WriteString("; ")
				} else {
					sb.WriteString(" ")
				}
			default:
				sb.WriteString("\n")
			}
		}
		for k := r.IntN(3); k > 0; k-- {
			sb.WriteString(com() + "\n")
		}
		src := sb.String()
		minify := r.IntN(3) == 0
		qc := QueueCase{Src: hx.Hex(src), Minify: minify, Stmts: []JStmtComs{}, Last: []JComment{}, Written: []string{}}
		f, err := Parse(src, syntax.LangBash, true)
		if err != nil {
			continue
		}
		// split each statement's comments exactly as Printer.stmtList does
		line := uint(0)
		for _, s := range f.Stmts {
			js := JStmtComs{Before: []JComment{}, Mid: []JComment{}, After: []JComment{}}
			for _, c := range s.Comments {
				if s.Cmd != nil && c.End().After(s.Cmd.End()) {
					js.After = append(js.After, jcom(c))
					break
				}
				if c.Pos().After(s.Pos()) {
					js.Mid = append(js.Mid, jcom(c))
					continue
				}
				js.Before = append(js.Before, jcom(c))
			}
			// a newline (hence a flush) precedes the statement iff it is on a later line than
			// the previous one or comments are pending; the model only needs "is there a flush
			// between before and mid", which does not change the written sequence (theorem), so
			// the flag records the source layout
			js.NlBefore = s.Pos().Line() > line
			line = s.End().Line()
			qc.Stmts = append(qc.Stmts, js)
		}
		for _, c := range f.Last {
			qc.Last = append(qc.Last, jcom(c))
		}
		out, err := Print(syntax.NewPrinter(syntax.Minify(minify)), f)
		if err != nil {
			qc.Err = err.Error()
			hx.Emit(qc)
			continue
		}
		f2, err := Parse(out, syntax.LangBash, true)
		if err != nil {
			qc.Err = err.Error()
			hx.Emit(qc)
			continue
		}
		for _, t := range Comments(f2) {
			qc.Written = append(qc.Written, hx.Hex(t))
		}
		hx.Emit(qc)
	}
}
