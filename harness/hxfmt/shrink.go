package hxfmt

// failsSame reports whether src (same lang/options/simplify) still parses and still
// fails the given clause of the property (with the same class attribution).
func failsSame(prop string, c Case, src, clause, class string) bool {
	c.In.Src = src
	p, err := prepare(c.In, c.Simplify)
	if err != nil {
		return false
	}
	var fs []Failure
	switch prop {
	case "C01":
		fs = CheckC01(c, p)
		for i := range fs {
			fs[i].Class = classC01(c, p, fs[i])
		}
	case "C02":
		fs, _ = CheckC02(c, p)
	case "C05":
		fs, _ = CheckC05(c, p)
	}
	for _, f := range fs {
		if f.Clause == clause && f.Class == class {
			return true
		}
	}
	return false
}

// Shrink is delta debugging on bytes: the smallest source found (by removing chunks)
// that still parses and still fails the same clause with the same class.
func Shrink(prop string, c Case, clause, class string) string {
	src := c.In.Src
	budget := 3000
	for n := len(src) / 2; n >= 1; {
		changed := false
		for i := 0; i+n <= len(src) && budget > 0; {
			cand := src[:i] + src[i+n:]
			budget--
			if failsSame(prop, c, cand, clause, class) {
				src = cand
				changed = true
			} else {
				i += n
			}
		}
		if budget <= 0 {
			break
		}
		if n == 1 && !changed {
			break
		}
		if n > 1 {
			n /= 2
		}
	}
	return src
}
