package hxfmt

import (
	"strings"

	"mvdan.cc/sh/v3/syntax"
)

// Known-finding classes. Each is a decidable predicate on the INPUT TREE and the
// option set, together with a FAILURE SIGNATURE; both must match. A class names a
// mechanism, never "any failure of the property".

func isHdoc(r *syntax.Redirect) bool { return r.Op == syntax.Hdoc || r.Op == syntax.DashHdoc }

func containsHdoc(n any) bool {
	found := false
	Visit(n, func(x any) {
		if r, ok := x.(*syntax.Redirect); ok && isHdoc(r) {
			found = true
		}
	})
	return found
}

// heredoc whose (unquoted) body contains a command substitution (or other nested
// statements) holding another heredoc
func hasNestedHdocInHdocBody(f any) bool {
	found := false
	Visit(f, func(x any) {
		if r, ok := x.(*syntax.Redirect); ok && isHdoc(r) && r.Hdoc != nil && containsHdoc(r.Hdoc) {
			found = true
		}
	})
	return found
}

func classC01(c Case, p *prepared, f Failure) string {
	return ""
}

func classC02(c Case, p *prepared, out1, out2 string) string {
	return ""
}

// binaryRHSComments: comments attached to the right-hand statement of a BinaryCmd
func binaryRHSComments(f any) map[*syntax.Comment]bool {
	m := map[*syntax.Comment]bool{}
	Visit(f, func(x any) {
		if b, ok := x.(*syntax.BinaryCmd); ok && b.Y != nil {
			for i := range b.Y.Comments {
				m[&b.Y.Comments[i]] = true
			}
		}
	})
	return m
}

func classC05(c Case, p *prepared, got []string) string {
	_ = strings.TrimSpace
	return ""
}
