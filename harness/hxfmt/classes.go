package hxfmt

import (
	"strings"

	"mvdan.cc/sh/v3/syntax"
)

// Known-finding classes. Each is a decidable predicate on the INPUT TREE and the
// option set, together with a FAILURE SIGNATURE; both must match. A class names a
// mechanism, never "any failure of the property".

func isHdoc(r *syntax.Redirect) bool { return r.Op == syntax.Hdoc || r.Op == syntax.DashHdoc }

func containsHdoc(n any) bool {
	found := false
	Visit(n, func(x any) {
		if r, ok := x.(*syntax.Redirect); ok && isHdoc(r) {
			found = true
		}
	})
	return found
}

// heredoc whose (unquoted) body contains a command substitution (or other nested
// statements) holding another heredoc
func hasNestedHdocInHdocBody(f any) bool {
	found := false
	Visit(f, func(x any) {
		if r, ok := x.(*syntax.Redirect); ok && isHdoc(r) && r.Hdoc != nil && containsHdoc(r.Hdoc) {
			found = true
		}
	})
	return found
}

func hasCaseBraces(n any) bool {
	found := false
	Visit(n, func(x any) {
		if cc, ok := x.(*syntax.CaseClause); ok && cc.Braces {
			found = true
		}
	})
	return found
}

func isShapeClause(cl string) bool { return cl == "shape" || strings.HasSuffix(cl, "_shape") }

// any nested statement list inside a word: command/process substitution
func containsSubst(n any) bool {
	found := false
	Visit(n, func(x any) {
		switch x.(type) {
		case *syntax.CmdSubst, *syntax.ProcSubst:
			found = true
		}
	})
	return found
}

func treeHas(n any, pred func(x any) bool) bool {
	found := false
	Visit(n, func(x any) {
		if !found && pred(x) {
			found = true
		}
	})
	return found
}

// commonClass: mechanisms that break C01 and C02 alike (decidable on source bytes / input tree / options).
func commonClass(c Case, p *prepared) string {
	switch {
	case strings.Contains(c.In.Src, "\\\r"):
		// a backslash directly followed by a carriage return: `\`+CR is kept as an escaped CR
		// by the lexer, but printed before a newline it becomes a `\`+CR+LF line continuation
		return "escaped_carriage_return"
	case containsHdoc(p.f) && (c.Opt.Single || c.Opt.Minify || hdocThenMultiline(p.f)):
		// pending heredoc bodies are written at the next newline the printer happens to emit. With
		// SingleLine/Minify (which suppress the statement's own newline), or when the heredoc operator
		// is followed ON ITS LINE by a command/process substitution or subshell, or by another construct
		// that contains a newline or a comment (block, compound command, multi-line quoted string), or by a pipeline
		// or list operator whose right-hand side starts on a later line, that newline lies inside the
		// nested construct and the body lands in the wrong place
		return "heredoc_body_placement"
	case dashHdocNestedConstruct(p.f):
		// a <<- body is re-indented line by line, including the lines of a command substitution
		// (and of any here-document nested in it) that the body contains
		return "dash_heredoc_nested_construct"
	case treeHas(p.f, func(x any) bool {
		r, ok := x.(*syntax.Redirect)
		if !ok || r.Op != syntax.DashHdoc || r.Hdoc == nil {
			return false
		}
		// an escaped newline inside the body: kept in a Lit, or between two adjacent Lit parts
		for i, wp := range r.Hdoc.Parts {
			l, ok := wp.(*syntax.Lit)
			if !ok {
				continue
			}
			if strings.Contains(l.Value, "\\\n") {
				return true
			}
			if i+1 < len(r.Hdoc.Parts) {
				if _, ok := r.Hdoc.Parts[i+1].(*syntax.Lit); ok {
					return true
				}
			}
		}
		return false
	}):
		// the line after an escaped newline in a <<- body is re-indented with tabs that
		// become part of the joined line
		return "dash_heredoc_line_continuation"
	case treeHas(p.f, func(x any) bool {
		cm, ok := x.(*syntax.Comment)
		if !ok {
			return false
		}
		// (the lexer keeps the escaped newline as part of the comment text)
		t := strings.TrimRight(cm.Text, " \t\r\n")
		n := len(t) - len(strings.TrimRight(t, "\\"))
		return n%2 == 1
	}):
		// the lexer joins the line after a comment ending in a backslash to the comment's
		// line, so wherever the printer puts such a comment the following line is swallowed
		return "comment_ending_in_backslash"
	case treeHas(p.f, func(x any) bool {
		switch x := x.(type) {
		case *syntax.ForClause:
			return len(x.Do) == 0 && hasComments(p.f)
		case *syntax.WhileClause:
			return (len(x.Do) == 0 || len(x.Cond) == 0) && hasComments(p.f)
		}
		return false
	}):
		// mksh/zsh allow empty loop bodies; the parser drops comments inside them
		return "comments_in_empty_loop_body"
	case strings.Contains(c.In.Src, "$\\\n"):
		// `$` + escaped newline + a character that forms an expansion with `$` (`$\`NL`#` is
		// the literal `$#` to the lexer, but printed as `$#` it is a parameter expansion)
		return "dollar_before_escaped_newline"
	}
	return ""
}

type posNode interface {
	Pos() syntax.Pos
	End() syntax.Pos
}

// hdocThenMultiline: see heredoc_body_placement
func hdocThenMultiline(f any) bool {
	var ops []syntax.Pos
	Visit(f, func(x any) {
		if r, ok := x.(*syntax.Redirect); ok && isHdoc(r) {
			ops = append(ops, r.OpPos)
		}
	})
	if len(ops) == 0 {
		return false
	}
	found := false
	Visit(f, func(x any) {
		if found {
			return
		}
		switch n := x.(type) {
		case *syntax.CmdSubst, *syntax.ProcSubst, *syntax.Subshell, *syntax.Block, *syntax.IfClause, *syntax.WhileClause,
			*syntax.ForClause, *syntax.CaseClause, *syntax.FuncDecl, *syntax.DblQuoted, *syntax.SglQuoted, *syntax.ArithmCmd,
			*syntax.ArithmExp, *syntax.TestClause, *syntax.ParamExp, *syntax.ArrayExpr:
			pn := n.(posNode)
			nested := false // constructs holding statements: their newlines depend on the layout chosen
			switch n.(type) {
			case *syntax.CmdSubst, *syntax.ProcSubst, *syntax.Subshell:
				nested = true
			}
			for _, op := range ops {
				if pn.Pos().Line() == op.Line() && pn.Pos().After(op) &&
					(nested || pn.End().Line() > pn.Pos().Line() || hasComments(n)) {
					found = true
				}
			}
		case *syntax.BinaryCmd:
			if containsHdoc(n.X) && n.Y != nil && n.Y.Pos().Line() > n.OpPos.Line() {
				found = true
			}
		case *syntax.Comment:
			// a comment on the operator line itself, followed by more of the same statement
			_ = n
		}
	})
	return found
}

func dashHdocNestedConstruct(f any) bool {
	return treeHas(f, func(x any) bool {
		r, ok := x.(*syntax.Redirect)
		if !ok || r.Op != syntax.DashHdoc || r.Hdoc == nil {
			return false
		}
		return treeHas(r.Hdoc, func(y any) bool {
			switch n := y.(type) {
			case *syntax.CmdSubst:
				return n.End().Line() > n.Pos().Line() || containsHdoc(n)
			case *syntax.ProcSubst:
				return n.End().Line() > n.Pos().Line() || containsHdoc(n)
			}
			return false
		})
	})
}

// a backquoted command substitution whose closing backquote shares the line with the
// delimiter of a here-document opened inside it (only possible with backquotes)
func backquoteHdocSameLine(f any) bool {
	return treeHas(f, func(x any) bool {
		cs, ok := x.(*syntax.CmdSubst)
		if !ok || !cs.Backquotes {
			return false
		}
		return treeHas(cs.Stmts, func(y any) bool {
			r, ok := y.(*syntax.Redirect)
			return ok && isHdoc(r) && r.Hdoc != nil && r.Hdoc.End().Line() >= cs.Right.Line()
		})
	})
}

// a comment that sits between the header of a compound command and its then/do keyword,
// or inside a command/process substitution or subshell (where it forces the closing
// parenthesis onto the next line)
func commentBeforeKeywordOrParen(f any) bool {
	var coms []*syntax.Comment
	Visit(f, func(x any) {
		if c, ok := x.(*syntax.Comment); ok {
			coms = append(coms, c)
		}
	})
	between := func(a, b syntax.Pos) bool {
		for _, c := range coms {
			if c.Hash.After(a) && b.After(c.Hash) {
				return true
			}
		}
		return false
	}
	return treeHas(f, func(x any) bool {
		switch n := x.(type) {
		case *syntax.IfClause:
			return n.ThenPos.IsValid() && between(n.Position, n.ThenPos)
		case *syntax.WhileClause:
			return between(n.WhilePos, n.DoPos)
		case *syntax.ForClause:
			return between(n.ForPos, n.DoPos)
		case *syntax.CmdSubst:
			return hasComments(n)
		case *syntax.ProcSubst:
			return hasComments(n)
		case *syntax.Subshell:
			return hasComments(n)
		}
		return false
	})
}

func classC01(c Case, p *prepared, f Failure) string {
	if k := commonClass(c, p); k != "" {
		return k
	}
	switch {
	case isShapeClause(f.Clause) && hasCaseBraces(p.f) && strings.Contains(f.Detail, "CaseClause{Braces=T"):
		return "mksh_case_braces_printed_as_in_esac"
	case c.Opt.Minify && isShapeClause(f.Clause) && treeHas(p.f, func(x any) bool {
		cc, ok := x.(*syntax.CaseClause)
		return ok && len(cc.Items) > 0 && cc.Items[len(cc.Items)-1].Op != syntax.Break
	}):
		return "minify_last_case_item_operator"
	case treeHas(p.f, func(x any) bool {
		fd, ok := x.(*syntax.FuncDecl)
		if !ok || !fd.RsrvWord || fd.Parens || fd.Body == nil {
			return false
		}
		_, sub := fd.Body.Cmd.(*syntax.Subshell)
		return sub
	}) && strings.Contains(f.Detail, "must be followed by `)`"):
		return "function_keyword_subshell_body"
	case c.In.Lang == syntax.LangZsh && c.Opt.Minify && strings.HasPrefix(f.Clause, "sub_") && treeHas(p.f, func(x any) bool {
		pe, ok := x.(*syntax.ParamExp)
		return ok && !pe.Short && IsSimpleParam(pe) && pe.Param.Value == "#"
	}):
		// zsh: `${#}` minified to `$#`; at the very end of the input (a node printed on its
		// own has no trailing newline) the zsh lexer reads `$#` as a literal `$`
		return "zsh_minify_dollar_hash_at_eof"
	case c.Opt.Minify && treeHas(p.f, func(x any) bool { _, ok := x.(*syntax.LetClause); return ok }) &&
		(f.Clause == "reparse" || strings.HasSuffix(f.Clause, "_reparse")):
		// Minify writes `&`, `&&`, `|` directly after a let expression, where they continue the arithmetic
		return "minify_let_operator_adjacent"
	case c.Opt.Minify && treeHas(p.f, func(x any) bool {
		b, ok := x.(*syntax.BinaryCmd)
		if !ok || b.Op != syntax.Pipe || b.Y == nil || len(b.Y.Redirs) == 0 {
			return false
		}
		r := b.Y.Redirs[0]
		return (r.Op == syntax.RdrAll || r.Op == syntax.AppAll) && (b.Y.Cmd == nil || b.Y.Cmd.Pos().After(r.Pos()))
	}):
		// Minify writes `|` directly before a leading `&>` redirection: `|&>` lexes as `|&` `>`
		return "minify_pipe_before_ampersand_redirect"
	case hasCoprocNameCall(p.f):
		return "coproc_name_with_simple_command"
	case c.In.Lang == syntax.LangZsh && c.Simplify && strings.Contains(f.Detail, "Modifiers=") && treeHas(p.f, func(x any) bool {
		pe, ok := x.(*syntax.ParamExp)
		return ok && pe.Slice != nil
	}):
		// Simplify drops the `$` of `${x:$h}`; in zsh `${x:h}` is then read as a history-style modifier
		return "zsh_simplify_slice_dollar_becomes_modifier"
	}
	return ""
}

// `coproc NAME cmd` where cmd is a simple command: bash only takes a NAME before a compound
// command; the parser records Name here and the printer cannot reproduce the order
func hasCoprocNameCall(n any) bool {
	return treeHas(n, func(x any) bool {
		cp, ok := x.(*syntax.CoprocClause)
		if !ok || cp.Stmt == nil {
			return false
		}
		ce, call := cp.Stmt.Cmd.(*syntax.CallExpr)
		return call && (cp.Name != nil || len(ce.Assigns) > 0)
	})
}

func stripBytes(s, cut string) string {
	return strings.Map(func(r rune) rune {
		if strings.ContainsRune(cut, r) {
			return -1
		}
		return r
	}, s)
}

func trimLines(s string) string {
	ls := strings.Split(s, "\n")
	for i := range ls {
		ls[i] = strings.TrimLeft(ls[i], " \t")
	}
	return strings.Join(ls, "\n")
}

// a parenthesised statement list whose first statement starts with "(" or whose only
// statement ends with ")": the printer decides the `( (` / `) )` spacing from SOURCE lines
func hasNestedParens(n any) bool {
	starts := func(st *syntax.Stmt) bool {
		for st != nil {
			switch c := st.Cmd.(type) {
			case *syntax.Subshell, *syntax.ArithmCmd:
				return true
			case *syntax.BinaryCmd:
				st = c.X
				continue
			}
			return false
		}
		return false
	}
	ends := func(st *syntax.Stmt) bool {
		for st != nil {
			if st.Background || st.Coprocess || st.Disown || len(st.Redirs) > 0 {
				return false
			}
			switch c := st.Cmd.(type) {
			case *syntax.Subshell, *syntax.ArithmCmd:
				return true
			case *syntax.BinaryCmd:
				st = c.Y
				continue
			}
			return false
		}
		return false
	}
	check := func(stmts []*syntax.Stmt) bool {
		// as in the printer: the `( (` rule looks at the first statement, the `) )` rule only at a lone statement
		return len(stmts) > 0 && (starts(stmts[0]) || (len(stmts) == 1 && ends(stmts[0])))
	}
	return treeHas(n, func(x any) bool {
		switch x := x.(type) {
		case *syntax.Subshell:
			return check(x.Stmts)
		case *syntax.CmdSubst:
			return check(x.Stmts)
		}
		return false
	})
}

func hasCaseComments(n any) bool {
	return treeHas(n, func(x any) bool {
		cc, ok := x.(*syntax.CaseClause)
		if !ok {
			return false
		}
		if len(cc.Last) > 0 {
			return true
		}
		for _, it := range cc.Items {
			if len(it.Comments) > 0 || len(it.Last) > 0 {
				return true
			}
		}
		return false
	})
}

func hasComments(n any) bool {
	return treeHas(n, func(x any) bool { _, ok := x.(*syntax.Comment); return ok })
}

// a statement terminator (`;` `&`) on a later line than the end of its command and redirections
func hasLateTerminator(n any) bool {
	return treeHas(n, func(x any) bool {
		st, ok := x.(*syntax.Stmt)
		if !ok || !st.Semicolon.IsValid() {
			return false
		}
		end := st.Position
		if st.Cmd != nil {
			end = st.Cmd.End()
		}
		if len(st.Redirs) > 0 {
			if e := st.Redirs[len(st.Redirs)-1].End(); e.After(end) {
				end = e
			}
		}
		return st.Semicolon.Line() > end.Line()
	})
}

func hasCoprocWithComments(n any) bool {
	return hasComments(n) && treeHas(n, func(x any) bool { _, ok := x.(*syntax.CoprocClause); return ok })
}

// double-quoted string containing an escaped newline (inside a Lit, or between adjacent Lits)
func hasDblQuotedEscapedNewline(n any) bool {
	return treeHas(n, func(x any) bool {
		dq, ok := x.(*syntax.DblQuoted)
		if !ok {
			return false
		}
		for i, wp := range dq.Parts {
			if l, ok := wp.(*syntax.Lit); ok {
				if strings.Contains(l.Value, "\\\n") {
					return true
				}
				if i+1 < len(dq.Parts) {
					if _, ok := dq.Parts[i+1].(*syntax.Lit); ok {
						return true
					}
				}
			}
		}
		return dq.Right.Line() > dq.Left.Line() && len(dq.Parts) == 0
	})
}

// the source as parsed, before Simplify, has a `!` inside [[ ]]
func srcHasTestNegation(c Case) bool {
	f, err := Parse(c.In.Src, c.In.Lang, true)
	if err != nil {
		return false
	}
	return treeHas(f, func(x any) bool {
		u, ok := x.(*syntax.UnaryTest)
		return ok && u.Op == syntax.TsNot
	})
}

// classC02: sameTree = the second output parses to the same tree and comment sequence as the
// first (the two outputs differ in layout only).
func classC02(c Case, p *prepared, out1, out2 string, sameTree bool) string {
	if k := commonClass(c, p); k != "" {
		return k
	}
	switch {
	case hasCoprocWithComments(p.f):
		return "coproc_trailing_comment"
	case hasCoprocNameCall(p.f):
		return "coproc_name_with_simple_command"
	case c.Simplify && srcHasTestNegation(c):
		// Simplify rewrites `[[ ! a = b ]]` to `! a == b` and only a second run turns that into
		// `a != b` (likewise `! ! ! -n x`, `! ! (a == b)`): syntax.Simplify is not a fixed point
		return "simplify_test_negation_needs_two_passes"
	case c.Simplify && c.Opt.Single && hasDblQuotedEscapedNewline(p.f):
		// SingleLine drops the escaped newline inside double quotes; only then can Simplify
		// turn the string into single quotes, on the second pass
		return "singleline_simplify_dblquoted_escaped_newline"
	case backquoteHdocSameLine(p.f) && sameTree:
		// the first pass moves the closing parenthesis to its own line, after which the statement
		// list no longer ends on the closing line and the second pass breaks after `$(` as well
		return "backquote_heredoc_close_same_line"
	case !sameTree:
		return ""
	case hasNestedParens(p.f) && stripBytes(out1, " ") == stripBytes(out2, " "):
		return "nested_paren_spacing_by_source_lines"
	case hasCaseComments(p.f) && trimLines(out1) == trimLines(out2):
		return "case_comment_indentation"
	case c.Opt.Minify && stripBytes(out1, "; \n") == stripBytes(out2, "; \n"):
		// Minify (which drops comments) chooses between ';' and newline from source lines
		return "minify_separator_by_source_lines"
	case !c.Opt.Minify && hasComments(p.f) && (c.Opt.Single || commentBeforeKeywordOrParen(p.f)):
		// a pending comment forces a newline where the first pass would otherwise join lines:
		// under SingleLine anywhere; otherwise when the comment sits between a compound command's
		// header and its then/do, or inside a command substitution/subshell before the closing
		// parenthesis. The second pass sees the comment at its new position and lays the
		// construct out differently (same tree, same comments)
		return "comment_layout_not_fixpoint"
	case hasLateTerminator(p.f):
		return "escaped_newline_before_terminator"
	case treeHas(p.f, func(x any) bool {
		l, ok := x.(*syntax.Lit)
		return ok && l.ValueEnd.Line() > l.ValuePos.Line() && !strings.Contains(l.Value, "\n")
	}):
		// an unquoted literal split by an escaped newline: its end line misleads the layout
		return "escaped_newline_inside_literal"
	}
	return ""
}

// binaryRHSComments: comments attached to the right-hand statement of a BinaryCmd
func binaryRHSComments(f any) map[*syntax.Comment]bool {
	m := map[*syntax.Comment]bool{}
	Visit(f, func(x any) {
		if b, ok := x.(*syntax.BinaryCmd); ok && b.Y != nil {
			for i := range b.Y.Comments {
				m[&b.Y.Comments[i]] = true
			}
		}
	})
	return m
}

func classC05(c Case, p *prepared, got []string) string {
	if k := commonClass(c, p); k != "" {
		return k
	}
	if hasCoprocWithComments(p.f) {
		// `coproc foo #c`: the parser's lookahead for the optional coproc name drops the comment
		return "coproc_trailing_comment"
	}
	if midCommentAfterNestedComment(p.f) && samePermutation(p.coms, got) {
		// the comments between a statement's start and the end of its command are queued
		// before the statement is printed, so they come out at the first newline inside it,
		// ahead of comments of nested constructs that precede them in the source
		return "mid_statement_comment_overtakes_nested_comment"
	}
	return ""
}

func samePermutation(a, b []string) bool {
	if len(a) != len(b) {
		return false
	}
	m := map[string]int{}
	for _, x := range a {
		m[x]++
	}
	for _, x := range b {
		m[x]--
	}
	for _, v := range m {
		if v != 0 {
			return false
		}
	}
	return true
}

func midCommentAfterNestedComment(f any) bool {
	return treeHas(f, func(x any) bool {
		st, ok := x.(*syntax.Stmt)
		if !ok || st.Cmd == nil {
			return false
		}
		for i := range st.Comments {
			m := &st.Comments[i]
			if !m.Pos().After(st.Pos()) || m.End().After(st.Cmd.End()) {
				continue
			}
			// a comment nested inside the command that precedes m in the source
			if treeHas(st.Cmd, func(y any) bool {
				k, ok := y.(*syntax.Comment)
				return ok && k != m && m.Hash.After(k.Hash)
			}) {
				return true
			}
		}
		return false
	})
}
