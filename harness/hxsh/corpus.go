package hxsh

import (
	"go/ast"
	"go/parser"
	"go/token"
	"path/filepath"
	"strconv"
	"strings"

	"mvdan.cc/sh/v3/interp"
	"mvdan.cc/sh/v3/syntax"
)

// CorpusPrograms extracts, as data, the first string of every two-string
// composite literal element (the `in` of runTest{in, want}) of
// <repo>/interp/interp_test.go, plus the literal arguments of parse(t, nil, "...").
func CorpusPrograms(repo string) ([]string, error) {
	fset := token.NewFileSet()
	f, err := parser.ParseFile(fset, filepath.Join(repo, "interp", "interp_test.go"), nil, 0)
	if err != nil {
		return nil, err
	}
	seen := map[string]bool{}
	var out []string
	add := func(e ast.Expr) {
		bl, ok := e.(*ast.BasicLit)
		if !ok || bl.Kind != token.STRING {
			return
		}
		s, err := strconv.Unquote(bl.Value)
		if err != nil || seen[s] {
			return
		}
		seen[s] = true
		out = append(out, s)
	}
	ast.Inspect(f, func(n ast.Node) bool {
		switch n := n.(type) {
		case *ast.CompositeLit:
			if len(n.Elts) == 2 && n.Type == nil {
				if _, ok := n.Elts[1].(*ast.BasicLit); ok {
					add(n.Elts[0])
				}
			}
		case *ast.CallExpr:
			if id, ok := n.Fun.(*ast.Ident); ok && id.Name == "parse" && len(n.Args) == 3 {
				add(n.Args[2])
			}
		}
		return true
	})
	return out, nil
}

// Unsafe reports why a parsed program is excluded from the behavioural legs
// ("" = it may run): every command word it can reach must be a literal naming a
// shell builtin, a function the program defines or an alias it defines (command
// names produced by expansion are excluded as well); nothing that depends on the
// process, the clock, the terminal, signals, or that may block.
func Unsafe(src string, f *syntax.File) string { return unsafeWith(src, f, map[string]bool{}) }

func unsafeWith(src string, f *syntax.File, outer map[string]bool) string {
	for _, bad := range []string{"/dev/", "$$", "PPID", "RANDOM", "SECONDS", "EPOCH", "BASHPID", "sleep", "kill", "ulimit", "umask",
		"/proc", "/etc", "/usr", "/bin", "/tmp", "/sys", "~", "exec", "coproc", "time ", "times", "select", "read -t", "wait -n",
		"HOME", "UID", "GID", "HOSTNAME", "TMPDIR", "PATH", "hash", "command -", "type ", "jobs", "disown", "SIG", "INT", "TERM", "$0",
		"LINENO", "BASH_", "FUNCNAME", "mkfifo", "tty", "stty", "su ", "sudo", "rm ", "chmod", "ln ", "..", "getopts", "<(", ">(", "$!"} {
		if strings.Contains(src, bad) {
			return "mentions " + bad
		}
	}
	defined := map[string]bool{}
	for k := range outer {
		defined[k] = true
	}
	syntax.Walk(f, func(n syntax.Node) bool {
		if fd, ok := n.(*syntax.FuncDecl); ok {
			defined[fd.Name.Value] = true
		}
		return true
	})
	reason := ""
	syntax.Walk(f, func(n syntax.Node) bool {
		switch n := n.(type) {
		case *syntax.CallExpr:
			if len(n.Args) == 0 {
				return true
			}
			name := n.Args[0].Lit()
			if name == "" {
				reason = "computed command name"
				return false
			}
			if name == "alias" {
				for _, a := range n.Args[1:] {
					if nm, _, ok := strings.Cut(a.Lit(), "="); ok {
						defined[nm] = true
					} else if len(a.Parts) > 0 {
						if l, ok := a.Parts[0].(*syntax.Lit); ok {
							if nm, _, ok := strings.Cut(l.Value, "="); ok {
								defined[nm] = true
							}
						}
					}
				}
			}
			if !interp.IsBuiltin(name) && !defined[name] {
				reason = "external command " + name
				return false
			}
			switch name {
			case "eval", "source", ".", "trap", "command", "builtin", "exec", "bg", "fg", "fc", "newgrp", "jobs", "kill", "umask", "ulimit", "times", "hash", "type":
				// their arguments name further commands, or they touch the process
				if name != "eval" && name != "trap" || !allLit(n.Args[1:]) {
					reason = "indirect command via " + name
					return false
				}
				var body string
				if name == "eval" {
					parts := make([]string, 0, len(n.Args))
					for _, a := range n.Args[1:] {
						parts = append(parts, LitOf(a))
					}
					body = strings.Join(parts, " ")
				} else {
					rest := n.Args[1:]
					if len(rest) > 0 && LitOf(rest[0]) == "--" {
						rest = rest[1:]
					}
					if len(rest) >= 2 {
						body = LitOf(rest[0])
						rest = rest[1:]
					}
					for _, a := range rest {
						if s := LitOf(a); s != "EXIT" && s != "ERR" && s != "-" {
							reason = "trap on signal " + s
							return false
						}
					}
					if body == "-" {
						body = ""
					}
				}
				sub, err := Parse(body)
				if err != nil {
					reason = "unparsable " + name + " body"
					return false
				}
				// functions and aliases defined outside are visible inside
				if r := unsafeWith(body, sub, defined); r != "" {
					reason = "inside " + name + ": " + r
					return false
				}
			}
		case *syntax.ProcSubst:
			reason = "process substitution"
			return false
		case *syntax.CoprocClause, *syntax.TimeClause:
			reason = "coproc/time"
			return false
		}
		return true
	})
	return reason
}

func allLit(ws []*syntax.Word) bool {
	for _, w := range ws {
		if len(w.Parts) == 0 {
			continue
		}
		for _, p := range w.Parts {
			switch p := p.(type) {
			case *syntax.Lit, *syntax.SglQuoted:
			case *syntax.DblQuoted:
				for _, q := range p.Parts {
					if _, ok := q.(*syntax.Lit); !ok {
						return false
					}
				}
			default:
				return false
			}
		}
	}
	return true
}

// LitOf returns the literal text of a word made of literal, single- and
// double-quoted literal parts.
func LitOf(w *syntax.Word) string {
	var sb strings.Builder
	for _, p := range w.Parts {
		switch p := p.(type) {
		case *syntax.Lit:
			sb.WriteString(p.Value)
		case *syntax.SglQuoted:
			sb.WriteString(p.Value)
		case *syntax.DblQuoted:
			for _, q := range p.Parts {
				if l, ok := q.(*syntax.Lit); ok {
					sb.WriteString(l.Value)
				}
			}
		}
	}
	return sb.String()
}
