package hxsh

import (
	"fmt"
	"math/rand/v2"
	"strings"
)

// Gen generates bash programs that only use builtins, functions they define
// and files of the scratch directory. All names come from small pools so that
// programs of one history interfere (a later program sees what an earlier one
// left behind, unless Reset clears it).
type Gen struct {
	R     *rand.Rand
	hd    int             // here-document counter (unique delimiters)
	Feats map[string]bool // features used by the last Program call
}

func NewGen(r *rand.Rand) *Gen { return &Gen{R: r, Feats: map[string]bool{}} }

var (
	vars    = []string{"x", "y", "z", "v1", "E1", "E2", "libv"}
	arrs    = []string{"arr", "brr"}
	maps_   = []string{"m"}
	funcs   = []string{"f", "g", "h", "libf"}
	aliases = []string{"a1", "a2", "ll"}
	words   = []string{"a", "b", "c", "foo", "bar", "x y", "1", "2", "10", "", "-n", "a*b", "q=r"}
	opts    = []string{"errexit", "nounset", "pipefail", "noglob", "allexport"}
	shopts  = []string{"expand_aliases", "nullglob", "dotglob", "extglob", "globstar", "nocaseglob"}
)

func (g *Gen) pick(l []string) string { return l[g.R.IntN(len(l))] }
func (g *Gen) feat(f string)          { g.Feats[f] = true }

// word yields a shell word (possibly with expansions).
func (g *Gen) word() string {
	switch g.R.IntN(14) {
	case 0:
		return "$" + g.pick(vars)
	case 1:
		return `"$` + g.pick(vars) + `"`
	case 2:
		return `"${` + g.pick(arrs) + `[@]}"`
	case 3:
		return "${" + g.pick(vars) + ":-def}"
	case 4:
		g.feat("brace")
		return g.brace()
	case 5:
		return "$(echo " + g.pick(words[:8]) + ")"
	case 6:
		return "$((" + g.arith() + "))"
	case 7:
		return "'" + g.pick(words) + "'"
	case 8:
		return `"${#` + g.pick(arrs) + `[@]}"`
	case 9:
		return "${" + g.pick(arrs) + "[" + fmt.Sprint(g.R.IntN(4)) + "]}"
	case 10:
		return "${" + g.pick(maps_) + "[k" + fmt.Sprint(g.R.IntN(2)) + "]}"
	default:
		w := g.pick(words)
		if w == "" || strings.ContainsAny(w, " *") {
			return "'" + w + "'"
		}
		return w
	}
}

func (g *Gen) brace() string {
	switch g.R.IntN(7) {
	case 0:
		return "{a,b}"
	case 1:
		return "p{x,y,z}q"
	case 2:
		return "{1..3}"
	case 3:
		return "{a,b}{1..2}"
	case 4:
		return "$" + g.pick(vars) + "{a,b}"
	case 5:
		return "{a,{b,c}d}"
	default:
		return "x{a..c..2}\"$" + g.pick(vars) + "\"{1,2}"
	}
}

func (g *Gen) arith() string {
	switch g.R.IntN(5) {
	case 0:
		return g.pick(vars[:3]) + "+1"
	case 1:
		return fmt.Sprintf("%d*%d", g.R.IntN(9), g.R.IntN(9))
	case 2:
		return g.pick(vars[:3]) + "=" + fmt.Sprint(g.R.IntN(20))
	case 3:
		return g.pick(vars[:3]) + "++"
	default:
		return g.pick(arrs) + "[1]+2"
	}
}

func (g *Gen) wordsN(lo, hi int) string {
	n := lo + g.R.IntN(hi-lo+1)
	ws := make([]string, n)
	for i := range ws {
		ws[i] = g.word()
	}
	return strings.Join(ws, " ")
}

func (g *Gen) aliasDef() string {
	g.feat("alias")
	name := g.pick(aliases)
	switch g.R.IntN(8) {
	case 0:
		return fmt.Sprintf("alias %s='echo al-%s'", name, name)
	case 1:
		g.feat("alias-blank")
		return fmt.Sprintf("alias %s='echo '", name) // trailing space: next word is alias-expanded too
	case 2:
		g.feat("alias-blank")
		return fmt.Sprintf("alias %s='%s '", name, g.pick(aliases)) // chains / self reference with blank
	case 3:
		g.feat("alias-rec")
		return fmt.Sprintf("alias %s='%s rec'", name, name) // recursive without blank
	case 4:
		return fmt.Sprintf("alias %s='printf <%%s> pre'", name)
	case 5:
		g.feat("alias-blank")
		return fmt.Sprintf("alias %s='echo one two '", name)
	case 6:
		return fmt.Sprintf("alias %s=%s", name, g.pick(funcs))
	default:
		return "unalias " + name + " 2>/dev/null"
	}
}

func (g *Gen) heredoc(consumer string) string {
	g.feat("heredoc")
	g.hd++
	delim := fmt.Sprintf("EOF%d", g.hd)
	body := []string{"line $" + g.pick(vars), "two " + g.pick(words[:6]), "$(echo sub) ${" + g.pick(arrs) + "[0]}"}
	n := 1 + g.R.IntN(3)
	switch g.R.IntN(4) {
	case 0: // quoted delimiter: literal body
		return fmt.Sprintf("%s <<'%s'\n%s\n%s", consumer, delim, strings.Join(body[:n], "\n"), delim)
	case 1: // <<- with tabs
		g.feat("heredoc-dash")
		for i := range body {
			body[i] = "\t" + body[i]
		}
		return fmt.Sprintf("%s <<-%s\n%s\n\t%s", consumer, delim, strings.Join(body[:n], "\n"), delim)
	case 2:
		return fmt.Sprintf("%s <<%s\n%s\n%s", consumer, delim, strings.Join(body[:n], "\n"), delim)
	default:
		g.feat("herestring")
		return fmt.Sprintf("%s <<<\"%s\"", consumer, body[0])
	}
}

func (g *Gen) block(depth int, n int) string {
	ss := make([]string, n)
	for i := range ss {
		ss[i] = g.Stmt(depth + 1)
	}
	return strings.Join(ss, "\n")
}

// simple yields a one-line simple command without here-documents (usable inside strings).
func (g *Gen) simple() string {
	switch g.R.IntN(8) {
	case 0:
		return "echo " + g.pick(words[:6]) + " $" + g.pick(vars)
	case 1:
		return g.pick(vars[:4]) + "=" + g.pick(words[:6])
	case 2:
		return g.pick(funcs) + " t"
	case 3:
		return g.pick(aliases) + " u"
	case 4:
		return "echo {a,b}$" + g.pick(vars)
	case 5:
		return "false"
	case 6:
		return "echo st=$?"
	default:
		return g.pick(arrs) + "+=(" + g.pick(words[:6]) + ")"
	}
}

func (g *Gen) cond() string {
	if g.R.IntN(2) == 0 {
		return g.simple()
	}
	return g.pick([]string{"false", "true", "! true", "(exit 3)", "[[ $x == a* ]]", "[ -n \"$y\" ]", "(( x > 1 ))", "[[ -d d1 ]]", "f c", "a1 c"})
}

// Stmt yields one top-level-capable statement (may span lines).
func (g *Gen) Stmt(depth int) string {
	k := g.R.IntN(67)
	if depth > 2 && k >= 40 {
		k = g.R.IntN(40)
	}
	switch k {
	case 0, 1, 2:
		return "echo " + g.wordsN(1, 4)
	case 3:
		return "printf '<%s>' " + g.wordsN(1, 3) + "; echo"
	case 4, 5:
		g.feat("assign")
		return g.pick(vars[:4]) + "=" + g.word()
	case 6:
		g.feat("assign")
		return g.pick(vars[:4]) + "+=" + g.word()
	case 7, 8:
		g.feat("array")
		return g.pick(arrs) + "=(" + g.wordsN(0, 4) + ")"
	case 9:
		g.feat("array")
		return g.pick(arrs) + "+=(" + g.wordsN(1, 2) + ")"
	case 10:
		g.feat("array")
		return fmt.Sprintf("%s[%d]=%s", g.pick(arrs), g.R.IntN(5), g.word())
	case 11:
		g.feat("array")
		return fmt.Sprintf("declare -A m; m[k%d]=%s", g.R.IntN(2), g.word())
	case 12:
		g.feat("array")
		return fmt.Sprintf("declare -A m=([k0]=%s [k1]=%s)", g.word(), g.word())
	case 13, 14:
		g.feat("declare-expanded")
		v := g.pick(vars[:4])
		kw := g.pick([]string{"declare", "export", "declare -x", "readonly", "declare -g", "declare -i"})
		if kw == "readonly" {
			return fmt.Sprintf("%s='ro%d=%s q'; %s $%s", v, g.R.IntN(2), g.pick(words[:6]), kw, v)
		}
		return fmt.Sprintf("%s='%s=%s %s'; %s $%s", v, g.pick(vars[:4]), g.pick(words[:6]), g.pick(vars[:4]), kw, v)
	case 15:
		g.feat("declare-expanded")
		return fmt.Sprintf("declare %s{1,2}=%s \"$%s\"=w", g.pick(vars[:3]), g.pick(words[:5]), g.pick(vars[:3]))
	case 16:
		g.feat("export")
		return "export " + g.pick(vars[:4]) + "=" + g.word()
	case 17:
		g.feat("readonly")
		return fmt.Sprintf("readonly ro%d=%s", g.R.IntN(2), g.pick(words[:5]))
	case 18:
		return "unset " + g.pick(append(append([]string{}, vars[:5]...), "arr", "arr[1]", "m", "-f f"))
	case 19:
		return "shopt -s expand_aliases"
	case 20, 21, 22:
		return g.aliasDef()
	case 23, 24, 25:
		g.feat("alias-use")
		return g.pick(aliases) + " " + g.wordsN(0, 3)
	case 26:
		g.feat("alias-use")
		return g.pick(aliases) + " " + g.pick(aliases) + " " + g.pick(aliases) + " " + g.word()
	case 27, 28:
		g.feat("brace")
		return "echo " + g.brace() + " " + g.brace()
	case 29:
		g.feat("brace")
		return "for i in " + g.brace() + "; do echo \"i=$i\"; done"
	case 30:
		return g.heredoc("read -r " + g.pick(vars[:3]) + " rest")
	case 31:
		return g.heredoc("while read -r l; do echo \"<$l>\"; done")
	case 32:
		return g.heredoc("mapfile -t " + g.pick(arrs))
	case 33:
		g.feat("func-call")
		return g.pick(funcs) + " " + g.wordsN(0, 3)
	case 34:
		g.feat("eval")
		return "eval '" + g.simple() + "; " + g.simple() + "'"
	case 35:
		g.feat("eval")
		return "eval \"" + g.pick(vars[:3]) + "=\\$" + g.pick(vars) + "{a,b}; echo " + g.brace() + "\""
	case 36:
		return "echo \"st=$? n=$# args=$*\""
	case 37:
		return g.pick([]string{"false", "true", "! true", "(exit 3)", "[[ $x == a* ]]", "[ -n \"$y\" ]", "(( x > 1 ))"})
	case 38:
		return "echo \"$-\" \"$PWD\" \"$OPTIND\" \"${E1}\" \"${libv}\""
	case 39:
		return "pwd; dirs"
	// ---- compound / state-changing (only while depth is small)
	case 40, 41:
		g.feat("func-def")
		body := g.block(depth, 1+g.R.IntN(3))
		extra := g.pick([]string{"", "local x=loc\n", "local " + g.pick(arrs) + "=(l1 l2)\n", "return " + fmt.Sprint(g.R.IntN(4)) + "\n"})
		if strings.HasPrefix(extra, "return") {
			return fmt.Sprintf("%s() {\n%s\n%s}", g.pick(funcs[:3]), body, extra)
		}
		return fmt.Sprintf("%s() {\n%s%s\necho \"in-f $# $1\"\n}", g.pick(funcs[:3]), extra, body)
	case 42:
		g.feat("trap")
		return "trap '" + g.simple() + "' " + g.pick([]string{"EXIT", "ERR", "EXIT", "EXIT ERR"})
	case 43:
		g.feat("trap")
		return g.pick([]string{"trap - EXIT", "trap - ERR", "trap"})
	case 44:
		g.feat("set-opt")
		return "set " + g.pick([]string{"-e", "-u", "-o pipefail", "+e", "+u", "-f", "+f", "-a", "+a", "-eu"})
	case 45:
		g.feat("set-opt")
		return "set " + g.pick([]string{"-o", "+o"}) + " " + g.pick(opts)
	case 46:
		g.feat("shopt")
		return "shopt " + g.pick([]string{"-s", "-u"}) + " " + g.pick(shopts)
	case 47:
		g.feat("cd")
		return "cd " + g.pick([]string{"d1", "d2", "..", "d1/sub", "-", "nonexistent", "\"$HOME\"", ""}) + " >/dev/null"
	case 48:
		g.feat("cd")
		return g.pick([]string{"pushd d1 >/dev/null", "pushd d2 >/dev/null", "popd >/dev/null", "pushd >/dev/null"})
	case 49:
		g.feat("params")
		return g.pick([]string{"shift", "shift 2", "set -- " + g.wordsN(0, 3), "set -- p1 p2 p3"})
	case 50:
		g.feat("exit")
		return g.pick([]string{"exit", "exit 0", "exit 3", "exit 7", "(exit 2)", "return 2>/dev/null"})
	case 51:
		g.feat("bg")
		return "{ echo bg" + fmt.Sprint(g.R.IntN(3)) + "; " + g.pick([]string{"true", "false", "exit 4"}) + "; } >bg.out &\nwait; echo \"w=$?\"; read -r l <bg.out; echo \"$l\""
	case 52:
		g.feat("bg")
		return g.pick(vars[:3]) + "=bgv &\nwait $!; echo \"w=$? $!\""
	case 53:
		return "if " + g.cond() + "; then\n" + g.block(depth, 1+g.R.IntN(2)) + "\nelse\n" + g.block(depth, 1) + "\nfi"
	case 54:
		return "for i in " + g.wordsN(1, 3) + "; do\n" + g.block(depth, 1+g.R.IntN(2)) + "\n" + g.pick([]string{"", "break\n", "continue\n"}) + "done"
	case 55:
		return "case " + g.word() + " in\na*) " + g.simple() + " ;;\n" + g.pick(words[:5]) + "|b) " + g.simple() + " ;;\n*) " + g.simple() + " ;;\nesac"
	case 56:
		return "(\n" + g.block(depth, 1+g.R.IntN(3)) + "\n)"
	case 57:
		return "{\n" + g.block(depth, 1+g.R.IntN(2)) + "\n}"
	case 58:
		g.feat("pipe")
		return "echo " + g.wordsN(1, 2) + " | while read -r a b; do echo \"[$a|$b]\"; " + g.pick(vars[:3]) + "=piped; done"
	case 59:
		g.feat("redir")
		return "echo " + g.word() + " >o.txt; read -r " + g.pick(vars[:3]) + " <o.txt; echo $(<in.txt)"
	case 60:
		g.feat("source")
		return "source ./lib.sh; libf " + g.word()
	case 61:
		g.feat("getopts")
		return "while getopts ab:c o -a -b val -c x; do echo \"o=$o a=$OPTARG i=$OPTIND\"; done"
	case 62:
		g.feat("getopts")
		return "getopts ab:c o -ac -b; echo \"o=$o i=$OPTIND\""
	case 63:
		return g.cond() + " && " + g.simple() + " || " + g.simple()
	case 64:
		// an expansion-relevant POSIX option toggled through shopt -o / set -o / set -u / set -f,
		// followed in the same file by an expansion that depends on it
		g.feat("opt-then-expansion")
		on := g.pick([]string{"shopt -s -o nounset", "set -o nounset", "set -u", "shopt -u -o nounset", "set +u"})
		return on + "\necho \"v: $never_set_" + fmt.Sprint(g.R.IntN(3)) + " ${" + g.pick(vars[:3]) + "}\"\necho after-nounset"
	case 65:
		g.feat("opt-then-expansion")
		on := g.pick([]string{"shopt -s -o noglob", "set -o noglob", "set -f", "shopt -u -o noglob", "set +f", "set +o noglob"})
		return on + "\necho * d?\necho after-noglob"
	default:
		g.feat("opt-then-expansion")
		on := g.pick([]string{"shopt -s nullglob", "shopt -u nullglob", "shopt -s dotglob", "shopt -s extglob", "shopt -s -o allexport", "shopt -s -o errexit", "shopt -s -o pipefail"})
		return on + "\necho nomatch* .[a-z]* @(d1|d2)\n" + g.pick(vars[:3]) + "=ae; false | true; echo \"pf=$?\""
	}
}

// Program yields a program of n top-level statements.
func (g *Gen) Program(n int) string {
	g.Feats = map[string]bool{}
	ss := make([]string, 0, n+1)
	if g.R.IntN(3) > 0 {
		ss = append(ss, "shopt -s expand_aliases")
	}
	for i := 0; i < n; i++ {
		ss = append(ss, g.Stmt(0))
	}
	return strings.Join(ss, "\n") + "\n"
}

// Probe yields a program that reads back as much leftover state as it can
// (the P of "Reset then P"), followed by a few ordinary statements.
func (g *Gen) Probe() string {
	g.Feats = map[string]bool{}
	ss := []string{
		`echo "x=$x y=$y z=$z v1=$v1 E1=$E1 E2=$E2 libv=$libv ro0=$ro0 ro1=$ro1"`,
		`echo "arr=${arr[*]} n=${#arr[@]} brr=${brr[*]} m=${m[k0]},${m[k1]}"`,
		`echo "opts=$- n=$# args=$* st=$? pwd=$PWD ind=$OPTIND bang=$!"`,
		`dirs; trap`,
		`shopt -q expand_aliases && echo ea-on`,
		`f p1; g p2; h p3; libf p4`,
		`shopt -s expand_aliases`,
		`a1 q1`, `a2 q2`, `ll q3`,
		`set -o | while read -r n v; do [ "$v" = on ] && echo "on:$n"; done`,
		`shopt nullglob dotglob extglob globstar nocaseglob`,
		`echo *`,
		`x=new; ro0=new 2>/dev/null; echo "x=$x ro0=$ro0"`,
	}
	g.R.Shuffle(len(ss)-1, func(i, j int) { ss[i], ss[j] = ss[j], ss[i] })
	n := g.R.IntN(4)
	for i := 0; i < n; i++ {
		ss = append(ss, g.Stmt(1))
	}
	if g.R.IntN(4) == 0 {
		ss = append(ss, "exit "+fmt.Sprint(g.R.IntN(5)))
	}
	return strings.Join(ss, "\n") + "\n"
}
