package hxsh

import (
	"os"
	"path/filepath"
	"strings"
)

// RegressEntry is one pinned input of corpus/<id>/regress.txt: inputs that once
// exposed a defect (minimised) and ordinary inputs exercising the same
// mechanisms. They run first, on every seed and tier, under the same oracles
// as generated inputs.
//
// File format: a line "### <kind> <name>" starts an entry; its text follows.
// Inside an entry a line "---" separates the programs of a history; the last
// program is P (the one run after Reset / on the fresh Runner).
type RegressEntry struct {
	Kind  string   // "prog" (C29), "incr" or "hist" (C30)
	Name  string
	Progs []string // one program, or history... + P
}

// RegressPath locates corpus/<id>/regress.txt: $VERIF_CORPUS/<id>/regress.txt, or
// ../corpus next to the directory of the executable (/verif/build -> /verif/corpus).
func RegressPath(id string) string {
	if d := os.Getenv("VERIF_CORPUS"); d != "" {
		return filepath.Join(d, id, "regress.txt")
	}
	exe, err := os.Executable()
	if err != nil {
		return ""
	}
	return filepath.Join(filepath.Dir(filepath.Dir(exe)), "corpus", id, "regress.txt")
}

func LoadRegress(id string) []RegressEntry {
	b, err := os.ReadFile(RegressPath(id))
	if err != nil {
		return nil
	}
	var out []RegressEntry
	var cur *RegressEntry
	var buf []string
	flushProg := func() {
		if cur != nil {
			cur.Progs = append(cur.Progs, strings.Join(buf, "\n")+"\n")
		}
		buf = nil
	}
	for _, line := range strings.Split(strings.TrimRight(string(b), "\n"), "\n") {
		if rest, ok := strings.CutPrefix(line, "### "); ok {
			if cur != nil {
				flushProg()
				out = append(out, *cur)
			}
			kind, name, _ := strings.Cut(rest, " ")
			cur = &RegressEntry{Kind: kind, Name: name}
			continue
		}
		if cur == nil {
			continue // header comments
		}
		if line == "---" {
			flushProg()
			continue
		}
		buf = append(buf, line)
	}
	if cur != nil {
		flushProg()
		out = append(out, *cur)
	}
	return out
}
