// Package hxsh is shared by the C29 and C30 harnesses: a sandbox for running
// shell programs on interp.Runner (scratch directory, refusing ExecHandler,
// OpenHandler confined to the scratch directory, context timeout, watchdog),
// a seeded generator of builtin-only shell programs, and the extraction of
// the program literals of /repo/interp/interp_test.go as data.
package hxsh

import (
	"bytes"
	"context"
	"fmt"
	"io"
	"os"
	"path/filepath"
	"sort"
	"strings"
	"sync"
	"time"

	"mvdan.cc/sh/v3/expand"
	"mvdan.cc/sh/v3/interp"
	"mvdan.cc/sh/v3/syntax"
)

// ConcBuffer is a bytes.Buffer safe for the concurrent writes of background jobs.
type ConcBuffer struct {
	mu sync.Mutex
	b  bytes.Buffer
}

func (c *ConcBuffer) Write(p []byte) (int, error) {
	c.mu.Lock()
	defer c.mu.Unlock()
	if c.b.Len() > 1<<20 {
		return len(p), nil // cap runaway output
	}
	return c.b.Write(p)
}

func (c *ConcBuffer) String() string {
	c.mu.Lock()
	defer c.mu.Unlock()
	return c.b.String()
}

func (c *ConcBuffer) Reset() {
	c.mu.Lock()
	defer c.mu.Unlock()
	c.b.Reset()
}

// Scratch is a private directory tree in which programs run.
type Scratch struct {
	Root string // the mktemp directory
	Dir  string // Root/w : working directory of the runners
}

func NewScratch(prefix string) *Scratch {
	root, err := os.MkdirTemp("", prefix)
	if err != nil {
		panic(err)
	}
	root, _ = filepath.EvalSymlinks(root)
	s := &Scratch{Root: root, Dir: filepath.Join(root, "w")}
	s.Wipe()
	return s
}

// Wipe restores the skeleton: w/ w/d1/ w/d2/ w/d1/sub/ w/in.txt w/lib.sh tmp/ home/
// (cheaply when nothing changed: the file system of the sandbox is slow).
func (s *Scratch) Wipe() {
	skeleton := map[string]string{ // relative path -> file content ("/" = directory)
		"d1": "/", "d2": "/", "d1/sub": "/",
		"in.txt": "l1 a\nl2 b\n",
		"lib.sh": "libv=7\nlibf() { echo lib \"$@\"; }\n",
	}
	var clean func(rel string)
	clean = func(rel string) {
		ents, err := os.ReadDir(filepath.Join(s.Dir, rel))
		if err != nil {
			return
		}
		for _, e := range ents {
			r := filepath.Join(rel, e.Name())
			want, ok := skeleton[r]
			switch {
			case !ok, (want == "/") != e.IsDir():
				os.RemoveAll(filepath.Join(s.Dir, r))
			case e.IsDir():
				clean(r)
			}
		}
	}
	if _, err := os.Stat(s.Dir); err != nil {
		os.MkdirAll(s.Dir, 0o755)
		os.MkdirAll(filepath.Join(s.Root, "tmp"), 0o755)
		os.MkdirAll(filepath.Join(s.Root, "home"), 0o755)
	}
	clean("")
	for _, t := range []string{"tmp", "home"} {
		if ents, _ := os.ReadDir(filepath.Join(s.Root, t)); len(ents) > 0 {
			for _, e := range ents {
				os.RemoveAll(filepath.Join(s.Root, t, e.Name()))
			}
		}
	}
	for _, rel := range []string{"d1", "d2", "d1/sub", "in.txt", "lib.sh"} {
		p := filepath.Join(s.Dir, rel)
		if want := skeleton[rel]; want == "/" {
			if fi, err := os.Stat(p); err != nil || !fi.IsDir() || fi.Mode().Perm() != 0o755 {
				os.MkdirAll(p, 0o755)
				os.Chmod(p, 0o755)
			}
		} else if got, err := os.ReadFile(p); err != nil || string(got) != want {
			os.Remove(p)
			os.WriteFile(p, []byte(want), 0o644)
		}
	}
}

func (s *Scratch) Close() { os.RemoveAll(s.Root) }

// EnvPairs is the environment every runner under test starts from.
func (s *Scratch) EnvPairs() []string {
	return []string{
		"HOME=" + filepath.Join(s.Root, "home"),
		"TMPDIR=" + filepath.Join(s.Root, "tmp"),
		"PATH=" + filepath.Join(s.Root, "nopath"),
		"E1=one", "E2=two words", "E3=", "LC_ALL=C.UTF-8",
	}
}

// RefuseExec is an ExecHandlers middleware that never runs anything.
func RefuseExec(next interp.ExecHandlerFunc) interp.ExecHandlerFunc {
	return func(ctx context.Context, args []string) error {
		hc := interp.HandlerCtx(ctx)
		fmt.Fprintf(hc.Stderr, "%s: refused\n", args[0])
		return interp.ExitStatus(127)
	}
}

// ConfinedOpen only opens paths under root (and /dev/null).
func ConfinedOpen(root string) interp.OpenHandlerFunc {
	def := interp.DefaultOpenHandler()
	return func(ctx context.Context, path string, flag int, perm os.FileMode) (io.ReadWriteCloser, error) {
		hc := interp.HandlerCtx(ctx)
		p := path
		if p != "" && !filepath.IsAbs(p) {
			p = filepath.Join(hc.Dir, p)
		}
		p = filepath.Clean(p)
		if p != "/dev/null" && p != root && !strings.HasPrefix(p, root+string(filepath.Separator)) {
			return nil, &os.PathError{Op: "open", Path: path, Err: os.ErrPermission}
		}
		if fi, err := os.Lstat(p); err == nil && !fi.Mode().IsRegular() && p != "/dev/null" && fi.Mode()&os.ModeNamedPipe == 0 {
			return nil, &os.PathError{Op: "open", Path: path, Err: os.ErrPermission}
		}
		return def(ctx, path, flag, perm)
	}
}

// Options are the fixed, identical options of every runner under test.
func (s *Scratch) Options(env expand.Environ, out, errw io.Writer, params ...string) []interp.RunnerOption {
	if env == nil {
		env = expand.ListEnviron(s.EnvPairs()...)
	}
	opts := []interp.RunnerOption{
		interp.Env(env),
		interp.Dir(s.Dir),
		interp.StdIO(nil, out, errw),
		interp.ExecHandlers(RefuseExec),
		interp.OpenHandler(ConfinedOpen(s.Root)),
	}
	if len(params) > 0 {
		opts = append(opts, interp.Params(params...))
	}
	return opts
}

// Outcome of one Run call.
type Outcome struct {
	Status  int    // exit status (0..255), -1 = other error
	Err     string // non-ExitStatus error text
	Panic   string
	Timeout bool // context deadline hit
	Hang    bool // Run did not return even after the context expired
}

func (o Outcome) String() string {
	return fmt.Sprintf("st=%d err=%q panic=%q to=%v hang=%v", o.Status, o.Err, o.Panic, o.Timeout, o.Hang)
}

// Bad reports an outcome after which nothing can be compared.
func (o Outcome) Bad() bool { return o.Timeout || o.Hang || o.Panic != "" }

var RunTimeout = 4 * time.Second

// Run runs node on r with a context timeout, panic capture and a watchdog.
func Run(r *interp.Runner, node syntax.Node) Outcome {
	ctx, cancel := context.WithTimeout(context.Background(), RunTimeout)
	defer cancel()
	return RunCtx(ctx, r, node)
}

// RunCtx is Run under a context owned by the caller (which must outlive the
// background jobs the node starts, e.g. across the statements of one program).
func RunCtx(ctx context.Context, r *interp.Runner, node syntax.Node) Outcome {
	done := make(chan Outcome, 1)
	go func() {
		var o Outcome
		defer func() {
			if e := recover(); e != nil {
				o.Panic = fmt.Sprint(e)
			}
			done <- o
		}()
		err := r.Run(ctx, node)
		switch e := err.(type) {
		case nil:
		case interp.ExitStatus:
			o.Status = int(e)
		default:
			o.Status = -1
			o.Err = err.Error()
		}
		if ctx.Err() != nil {
			o.Timeout = true
		}
	}()
	select {
	case o := <-done:
		return o
	case <-time.After(RunTimeout + 3*time.Second):
		return Outcome{Hang: true, Status: -1}
	}
}

// CaseCtx is a context for one whole case (several Run calls).
func CaseCtx(runs int) (context.Context, context.CancelFunc) {
	return context.WithTimeout(context.Background(), time.Duration(runs+1)*RunTimeout)
}

// Parse parses src as bash; name is empty so that $0 is the same in file and statement runs.
func Parse(src string) (*syntax.File, error) {
	return syntax.NewParser(syntax.Variant(syntax.LangBash)).Parse(strings.NewReader(src), "")
}

// SnapshotString renders a snapshot map deterministically, skipping the named fields.
func SnapshotString(m map[string]string, skip map[string]bool) string {
	names := make([]string, 0, len(m))
	for n := range m {
		if !skip[n] {
			names = append(names, n)
		}
	}
	sort.Strings(names)
	var sb strings.Builder
	for _, n := range names {
		sb.WriteString(n)
		sb.WriteString(" = ")
		sb.WriteString(m[n])
		sb.WriteString("\n")
	}
	return sb.String()
}

// DiffFields lists the fields on which two snapshots differ.
func DiffFields(a, b map[string]string, skip map[string]bool) []string {
	var out []string
	for n, v := range a {
		if !skip[n] && b[n] != v {
			out = append(out, n)
		}
	}
	for n := range b {
		if _, ok := a[n]; !ok && !skip[n] {
			out = append(out, n)
		}
	}
	sort.Strings(out)
	return out
}
