// Package hxsyn is shared by the C14 and C15 harnesses: the schema of the syntax
// package's node types obtained by reflection from the running code, the export
// of syntax trees as generic values (Coq terms of coq/Syntax/Schema.v), the test
// corpus extracted from the repository's test tables as data, and the probes
// that produce coq/Gen/*.v.
package hxsyn

import (
	"encoding"
	"fmt"
	"reflect"
	"sort"
	"strings"

	"mvdan.cc/sh/v3/syntax"
)

// Registry lists one value of every node type. Go has no lookup of types by
// name, so the implementers of the interface types cannot be found by reflection
// alone; SourceNodeTypes (source.go) compares this list with the declarations in
// the source on every run, so a node type added to the package is noticed.
var Registry = []syntax.Node{
	&syntax.File{}, &syntax.Comment{}, &syntax.Stmt{}, &syntax.Assign{}, &syntax.Redirect{},
	&syntax.CallExpr{}, &syntax.Subshell{}, &syntax.Block{}, &syntax.IfClause{}, &syntax.WhileClause{},
	&syntax.ForClause{}, &syntax.WordIter{}, &syntax.CStyleLoop{}, &syntax.BinaryCmd{}, &syntax.FuncDecl{},
	&syntax.Word{}, &syntax.Lit{}, &syntax.SglQuoted{}, &syntax.DblQuoted{}, &syntax.CmdSubst{},
	&syntax.ParamExp{}, &syntax.ArithmExp{}, &syntax.ArithmCmd{}, &syntax.BinaryArithm{}, &syntax.UnaryArithm{},
	&syntax.ParenArithm{}, &syntax.FlagsArithm{}, &syntax.CaseClause{}, &syntax.CaseItem{}, &syntax.TestClause{},
	&syntax.BinaryTest{}, &syntax.UnaryTest{}, &syntax.ParenTest{}, &syntax.DeclClause{}, &syntax.ArrayExpr{},
	&syntax.ArrayElem{}, &syntax.ExtGlob{}, &syntax.ProcSubst{}, &syntax.TimeClause{}, &syntax.CoprocClause{},
	&syntax.LetClause{}, &syntax.BraceExp{}, &syntax.TestDecl{},
}

var (
	NodeT    = reflect.TypeFor[syntax.Node]()
	PosT     = reflect.TypeFor[syntax.Pos]()
	boolT    = reflect.TypeFor[bool]()
	stringT  = reflect.TypeFor[string]()
	strerT   = reflect.TypeFor[fmt.Stringer]()
	unmarshT = reflect.TypeFor[encoding.TextUnmarshaler]()
)

type Ty struct {
	K    string // struct ptr iface slice string bool uint pos
	ID   int    // sid / iid / uid
	Elem *Ty
}

func (t Ty) Coq() string {
	switch t.K {
	case "struct":
		return fmt.Sprintf("(TStruct %d)", t.ID)
	case "ptr":
		return fmt.Sprintf("(TPtr %d)", t.ID)
	case "iface":
		return fmt.Sprintf("(TIface %d)", t.ID)
	case "slice":
		return "(TSlice " + t.Elem.Coq() + ")"
	case "string":
		return "TString"
	case "bool":
		return "TBool"
	case "uint":
		return fmt.Sprintf("(TUint %d)", t.ID)
	case "pos":
		return "TPos"
	}
	panic("bad ty " + t.K)
}

type Field struct {
	Name string
	Ty   Ty
	Idx  int // index in the Go struct
}
type Struct struct {
	Name   string
	T      reflect.Type
	Node   bool
	Fields []Field
}
type Iface struct {
	Name  string
	T     reflect.Type
	Impls []int
}
type Uint struct {
	Name        string
	T           reflect.Type
	Bits        int
	Stringer    bool
	Unmarshaler bool
}
type Schema struct {
	Structs   []*Struct
	Ifaces    []*Iface
	Uints     []*Uint
	NodeIface int
	Problems  []string // shapes the generic model does not cover
	sid       map[reflect.Type]int
	iid       map[reflect.Type]int
	uid       map[reflect.Type]int
}

// BuildSchema reflects over every type reachable from *syntax.File through
// exported fields (interface types resolved through Registry).
func BuildSchema() *Schema {
	s := &Schema{sid: map[reflect.Type]int{}, iid: map[reflect.Type]int{}, uid: map[reflect.Type]int{}}
	s.tyOf(reflect.TypeFor[*syntax.File]())
	s.NodeIface = s.tyOf(NodeT).ID
	// registry types that are not reachable from *File
	for _, n := range Registry {
		if _, ok := s.sid[reflect.TypeOf(n).Elem()]; !ok {
			s.Problems = append(s.Problems, "registry type not reachable from *File: "+reflect.TypeOf(n).String())
		}
	}
	return s
}

func (s *Schema) tyOf(t reflect.Type) Ty {
	if t == PosT {
		return Ty{K: "pos"}
	}
	switch t.Kind() {
	case reflect.Struct:
		return Ty{K: "struct", ID: s.structID(t)}
	case reflect.Pointer:
		if t.Elem().Kind() != reflect.Struct || t.Elem() == PosT {
			s.Problems = append(s.Problems, "pointer to non-struct: "+t.String())
			return Ty{K: "bool"}
		}
		return Ty{K: "ptr", ID: s.structID(t.Elem())}
	case reflect.Interface:
		if id, ok := s.iid[t]; ok {
			return Ty{K: "iface", ID: id}
		}
		id := len(s.Ifaces)
		d := &Iface{Name: t.Name(), T: t}
		s.iid[t] = id
		s.Ifaces = append(s.Ifaces, d)
		for _, n := range Registry {
			pt := reflect.TypeOf(n)
			if pt.Implements(t) {
				d.Impls = append(d.Impls, s.structID(pt.Elem()))
			}
		}
		return Ty{K: "iface", ID: id}
	case reflect.Slice:
		e := s.tyOf(t.Elem())
		return Ty{K: "slice", Elem: &e}
	case reflect.String:
		if t != stringT {
			s.Problems = append(s.Problems, "named string type: "+t.String())
		}
		return Ty{K: "string"}
	case reflect.Bool:
		if t != boolT {
			s.Problems = append(s.Problems, "named bool type: "+t.String())
		}
		return Ty{K: "bool"}
	case reflect.Uint8, reflect.Uint32:
		if id, ok := s.uid[t]; ok {
			return Ty{K: "uint", ID: id}
		}
		id := len(s.Uints)
		s.uid[t] = id
		s.Uints = append(s.Uints, &Uint{Name: t.Name(), T: t, Bits: t.Bits(),
			Stringer: t.Implements(strerT), Unmarshaler: reflect.PointerTo(t).Implements(unmarshT)})
		return Ty{K: "uint", ID: id}
	}
	s.Problems = append(s.Problems, "unsupported kind "+t.Kind().String()+": "+t.String())
	return Ty{K: "bool"}
}

func (s *Schema) structID(t reflect.Type) int {
	if id, ok := s.sid[t]; ok {
		return id
	}
	id := len(s.Structs)
	d := &Struct{Name: t.Name(), T: t, Node: reflect.PointerTo(t).Implements(NodeT)}
	s.sid[t] = id
	s.Structs = append(s.Structs, d)
	for i := 0; i < t.NumField(); i++ {
		f := t.Field(i)
		if !f.IsExported() {
			s.Problems = append(s.Problems, "unexported field "+t.Name()+"."+f.Name)
			continue
		}
		if f.Anonymous {
			s.Problems = append(s.Problems, "embedded field "+t.Name()+"."+f.Name)
		}
		switch f.Name {
		case "Type", "Pos", "End":
			s.Problems = append(s.Problems, "field name collides with a typedjson key: "+t.Name()+"."+f.Name)
		}
		ft := s.tyOf(f.Type)
		if ft.K == "struct" {
			s.Problems = append(s.Problems, "struct-typed field "+t.Name()+"."+f.Name)
		}
		d.Fields = append(d.Fields, Field{Name: f.Name, Ty: ft, Idx: i})
	}
	return id
}

func (s *Schema) SID(t reflect.Type) (int, bool) { id, ok := s.sid[t]; return id, ok }
func (s *Schema) StructByName(name string) int {
	for i, d := range s.Structs {
		if d.Name == name {
			return i
		}
	}
	return -1
}

// CoqStr renders a Go string as a Coq [list N] literal.
func CoqStr(x string) string {
	var sb strings.Builder
	sb.WriteByte('[')
	for i := 0; i < len(x); i++ {
		if i > 0 {
			sb.WriteByte(';')
		}
		fmt.Fprintf(&sb, "%d", x[i])
	}
	sb.WriteByte(']')
	return sb.String()
}

func coqBool(b bool) string {
	if b {
		return "true"
	}
	return "false"
}

const genHeader = "(* GENERATED on every run of ./check %s by harness/hxsyn from the running Go code. Do not edit. *)\n"

// CoqSchema renders coq/Gen/Schema.v.
func (s *Schema) CoqSchema() string {
	var sb strings.Builder
	fmt.Fprintf(&sb, genHeader, "C14/C15")
	sb.WriteString("From Verif Require Import Base.Str Syntax.Schema.\nOpen Scope N_scope.\n\n")
	sb.WriteString("Definition gen_structs : list struct_decl := [\n")
	for i, d := range s.Structs {
		fmt.Fprintf(&sb, "  (* %d %s *) {| s_name := %s; s_node := %s; s_fields := [", i, d.Name, CoqStr(d.Name), coqBool(d.Node))
		for j, f := range d.Fields {
			if j > 0 {
				sb.WriteString(";")
			}
			fmt.Fprintf(&sb, "\n      (* %d %s *) {| f_name := %s; f_ty := %s |}", j, f.Name, CoqStr(f.Name), f.Ty.Coq())
		}
		sb.WriteString("] |}")
		if i < len(s.Structs)-1 {
			sb.WriteString(";")
		}
		sb.WriteString("\n")
	}
	sb.WriteString("].\n\nDefinition gen_ifaces : list iface_decl := [\n")
	for i, d := range s.Ifaces {
		var im []string
		for _, x := range d.Impls {
			im = append(im, fmt.Sprintf("%d%%nat", x))
		}
		fmt.Fprintf(&sb, "  (* %d %s *) {| i_name := %s; i_impls := [%s] |}", i, d.Name, CoqStr(d.Name), strings.Join(im, ";"))
		if i < len(s.Ifaces)-1 {
			sb.WriteString(";")
		}
		sb.WriteString("\n")
	}
	sb.WriteString("].\n\nDefinition gen_uints : list uint_decl := [\n")
	for i, d := range s.Uints {
		fmt.Fprintf(&sb, "  (* %d %s *) {| u_name := %s; u_bits := %d; u_stringer := %s; u_unmarshaler := %s |}",
			i, d.Name, CoqStr(d.Name), d.Bits, coqBool(d.Stringer), coqBool(d.Unmarshaler))
		if i < len(s.Uints)-1 {
			sb.WriteString(";")
		}
		sb.WriteString("\n")
	}
	fmt.Fprintf(&sb, "].\n\nDefinition gen_schema : schema :=\n  {| structs := gen_structs; ifaces := gen_ifaces; uints := gen_uints; node_iface := %d |}.\n", s.NodeIface)
	return sb.String()
}

// RawPos returns the two unexported words of a syntax.Pos.
func RawPos(p syntax.Pos) (offs, lineCol uint64) {
	v := reflect.ValueOf(p)
	return v.Field(0).Uint(), v.Field(1).Uint()
}

func coqPos(p syntax.Pos) string {
	o, lc := RawPos(p)
	return fmt.Sprintf("(%d,%d)", o, lc)
}

// ExportErr is reported by Export for trees the generic value type cannot hold.
type ExportErr struct{ Msg string }

func (e *ExportErr) Error() string { return e.Msg }

// Export renders a Go value of a schema type as a Coq [value] term.
// withAttrs: node structs carry Some (Pos(), End()); without, None (decoded trees are
// compared modulo the method results).
func (s *Schema) Export(v reflect.Value, withAttrs bool) (out string, err error) {
	defer func() {
		if r := recover(); r != nil {
			if ee, ok := r.(*ExportErr); ok {
				err = ee
				return
			}
			err = &ExportErr{fmt.Sprint("panic during export: ", r)}
		}
	}()
	var sb strings.Builder
	s.export(&sb, v, withAttrs)
	return sb.String(), nil
}

func (s *Schema) export(sb *strings.Builder, v reflect.Value, attrs bool) {
	t := v.Type()
	if t == PosT {
		sb.WriteString("(VPos ")
		sb.WriteString(coqPos(v.Interface().(syntax.Pos)))
		sb.WriteString(")")
		return
	}
	switch v.Kind() {
	case reflect.Struct:
		sid, ok := s.sid[t]
		if !ok {
			panic(&ExportErr{"struct type outside the schema: " + t.String()})
		}
		d := s.Structs[sid]
		fmt.Fprintf(sb, "(VStruct %d ", sid)
		if attrs && d.Node {
			if !v.CanAddr() {
				panic(&ExportErr{"unaddressable node struct " + t.String()})
			}
			n := v.Addr().Interface().(syntax.Node)
			fmt.Fprintf(sb, "(Some (%s,%s)) [", coqPos(n.Pos()), coqPos(n.End()))
		} else {
			sb.WriteString("None [")
		}
		for i, f := range d.Fields {
			if i > 0 {
				sb.WriteByte(';')
			}
			s.export(sb, v.Field(f.Idx), attrs)
		}
		sb.WriteString("])")
	case reflect.Pointer:
		if v.IsNil() {
			sb.WriteString("(VPtr None)")
			return
		}
		sb.WriteString("(VPtr (Some ")
		s.export(sb, v.Elem(), attrs)
		sb.WriteString("))")
	case reflect.Interface:
		if v.IsNil() {
			sb.WriteString("(VIface None)")
			return
		}
		e := v.Elem()
		if e.Kind() != reflect.Pointer || e.IsNil() {
			panic(&ExportErr{"interface holding a nil or non-pointer value: " + e.Type().String()})
		}
		sb.WriteString("(VIface (Some ")
		s.export(sb, e.Elem(), attrs)
		sb.WriteString("))")
	case reflect.Slice:
		fmt.Fprintf(sb, "(VSlice %s [", coqBool(v.IsNil()))
		for i := 0; i < v.Len(); i++ {
			if i > 0 {
				sb.WriteByte(';')
			}
			s.export(sb, v.Index(i), attrs)
		}
		sb.WriteString("])")
	case reflect.String:
		sb.WriteString("(VStr ")
		sb.WriteString(CoqStr(v.String()))
		sb.WriteString(")")
	case reflect.Bool:
		fmt.Fprintf(sb, "(VBool %s)", coqBool(v.Bool()))
	case reflect.Uint8, reflect.Uint32:
		uid, ok := s.uid[t]
		if !ok {
			panic(&ExportErr{"uint type outside the schema: " + t.String()})
		}
		fmt.Fprintf(sb, "(VUint %d %d)", uid, v.Uint())
	default:
		panic(&ExportErr{"unsupported kind " + v.Kind().String()})
	}
}

// NodeRef is one node found by the reflection enumeration.
type NodeRef struct {
	Ptr    any    // pointer identity (*T); comments inside []Comment are addressable too
	Key    string // kind + Pos + End + scalar fields: identity when Walk hands out copies
	Kind   string
	Parent int // index of the parent node, -1 for the root
}

// NodeKey identifies a node by kind, Pos, End and its own scalar fields.
func NodeKey(n syntax.Node) string {
	v := reflect.ValueOf(n).Elem()
	var sb strings.Builder
	sb.WriteString(v.Type().Name())
	sb.WriteString("@" + coqPos(n.Pos()) + coqPos(n.End()))
	for i := 0; i < v.NumField(); i++ {
		f := v.Field(i)
		if f.Type() == PosT {
			sb.WriteString("|" + coqPos(f.Interface().(syntax.Pos)))
			continue
		}
		switch f.Kind() {
		case reflect.String:
			fmt.Fprintf(&sb, "|%q", f.String())
		case reflect.Bool:
			fmt.Fprintf(&sb, "|%v", f.Bool())
		case reflect.Uint8, reflect.Uint32:
			fmt.Fprintf(&sb, "|%d", f.Uint())
		}
	}
	return sb.String()
}

// Enumerate lists every node reachable from root through exported fields, in
// declaration order, depth first, with its parent node.
func Enumerate(root syntax.Node) []NodeRef {
	var out []NodeRef
	var rec func(v reflect.Value, parent int)
	rec = func(v reflect.Value, parent int) {
		if v.Type() == PosT {
			return
		}
		switch v.Kind() {
		case reflect.Interface:
			if !v.IsNil() {
				rec(v.Elem(), parent)
			}
		case reflect.Pointer:
			if !v.IsNil() {
				rec(v.Elem(), parent)
			}
		case reflect.Slice:
			for i := 0; i < v.Len(); i++ {
				rec(v.Index(i), parent)
			}
		case reflect.Struct:
			me := parent
			if v.CanAddr() {
				if n, ok := v.Addr().Interface().(syntax.Node); ok {
					me = len(out)
					out = append(out, NodeRef{Ptr: v.Addr().Interface(), Key: NodeKey(n), Kind: v.Type().Name(), Parent: parent})
				}
			}
			t := v.Type()
			for i := 0; i < v.NumField(); i++ {
				if t.Field(i).IsExported() {
					rec(v.Field(i), me)
				}
			}
		}
	}
	rec(reflect.ValueOf(root), -1)
	return out
}

func sortedKeys(m map[string]int) []string {
	var ks []string
	for k := range m {
		ks = append(ks, k)
	}
	sort.Strings(ks)
	return ks
}
