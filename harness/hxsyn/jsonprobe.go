package hxsyn

import (
	"bytes"
	"encoding"
	"encoding/json"
	"fmt"
	"io"
	"math"
	"math/big"
	"reflect"
	"sort"
	"strings"

	"mvdan.cc/sh/v3/syntax"
	"mvdan.cc/sh/v3/syntax/typedjson"
)

// ---- coq/Gen/Operators.v: operator strings, UnmarshalText tables, typedjson's type names ----

type OpTables struct {
	Str    map[int][][2]string // uid -> (value, String())
	Unm    map[int][][2]string // uid -> (text, value)
	ByName [][2]string         // (Type name, sid)
	Notes  []string
}

func (s *Schema) uintByName(name string) int {
	for i, u := range s.Uints {
		if u.Name == name {
			return i
		}
	}
	return -1
}

// ProbeOps dumps, for every uint type of the schema that is a Stringer, String() of every
// exported constant of that type declared in the source; for every TextUnmarshaler, which
// texts it accepts (candidates: String() of every token value, and the empty string); and
// which Type names typedjson.Decode accepts.
func (s *Schema) ProbeOps(repo string) (*OpTables, error) {
	t := &OpTables{Str: map[int][][2]string{}, Unm: map[int][][2]string{}}
	consts, err := SourceOpConsts(repo)
	if err != nil {
		return nil, err
	}
	seenVal := map[string]bool{}
	for _, c := range consts {
		uid := s.uintByName(c.Type)
		if uid < 0 || !s.Uints[uid].Stringer {
			continue
		}
		k := fmt.Sprint(uid, ":", c.Value)
		if seenVal[k] || c.Value == 0 {
			continue
		}
		seenVal[k] = true
		v := reflect.New(s.Uints[uid].T).Elem()
		v.SetUint(c.Value)
		str := v.Interface().(fmt.Stringer).String()
		t.Str[uid] = append(t.Str[uid], [2]string{fmt.Sprint(c.Value), str})
	}
	// candidate texts
	cand := map[string]bool{"": true, "bogus": true}
	for _, u := range s.Uints {
		if !u.Stringer {
			continue
		}
		for x := uint64(0); x < 400; x++ {
			v := reflect.New(u.T).Elem()
			v.SetUint(x)
			cand[v.Interface().(fmt.Stringer).String()] = true
		}
	}
	var texts []string
	for c := range cand {
		texts = append(texts, c)
	}
	sort.Strings(texts)
	for uid, u := range s.Uints {
		if !u.Unmarshaler {
			continue
		}
		for _, text := range texts {
			p := reflect.New(u.T)
			if err := p.Interface().(encoding.TextUnmarshaler).UnmarshalText([]byte(text)); err == nil {
				t.Unm[uid] = append(t.Unm[uid], [2]string{text, fmt.Sprint(p.Elem().Uint())})
			}
		}
	}
	for sid, d := range s.Structs {
		doc, _ := json.Marshal(map[string]string{"Type": d.Name})
		var n syntax.Node
		var derr error
		func() {
			defer func() {
				if r := recover(); r != nil {
					derr = fmt.Errorf("panic: %v", r)
					t.Notes = append(t.Notes, "Decode panics on "+string(doc))
				}
			}()
			n, derr = typedjson.Decode(bytes.NewReader(doc))
		}()
		if derr != nil || n == nil {
			continue
		}
		got, ok := s.sid[reflect.TypeOf(n).Elem()]
		if !ok {
			t.Notes = append(t.Notes, "Decode of Type "+d.Name+" yields a type outside the schema")
			continue
		}
		_ = sid
		t.ByName = append(t.ByName, [2]string{d.Name, fmt.Sprint(got)})
	}
	return t, nil
}

func (s *Schema) CoqOperators(t *OpTables) string {
	var sb strings.Builder
	fmt.Fprintf(&sb, genHeader, "C15")
	sb.WriteString("From Verif Require Import Base.Str Syntax.Schema Syntax.TypedJson.\nOpen Scope N_scope.\n\n")
	sb.WriteString("Definition gen_ops_str : list (nat * list (N * str)) := [\n")
	first := true
	for uid, u := range s.Uints {
		l, ok := t.Str[uid]
		if !ok {
			continue
		}
		if !first {
			sb.WriteString(";\n")
		}
		first = false
		fmt.Fprintf(&sb, "  (* %s *) (%d%%nat, [", u.Name, uid)
		for i, e := range l {
			if i > 0 {
				sb.WriteString("; ")
			}
			fmt.Fprintf(&sb, "(%s, %s (* %s *))", e[0], CoqStr(e[1]), safeComment(e[1]))
		}
		sb.WriteString("])")
	}
	sb.WriteString("\n].\n\nDefinition gen_ops_unm : list (nat * list (str * N)) := [\n")
	first = true
	for uid, u := range s.Uints {
		l, ok := t.Unm[uid]
		if !ok {
			continue
		}
		if !first {
			sb.WriteString(";\n")
		}
		first = false
		fmt.Fprintf(&sb, "  (* %s *) (%d%%nat, [", u.Name, uid)
		for i, e := range l {
			if i > 0 {
				sb.WriteString("; ")
			}
			fmt.Fprintf(&sb, "(%s, %s)", CoqStr(e[0]), e[1])
		}
		sb.WriteString("])")
	}
	sb.WriteString("\n].\n\nDefinition gen_by_name : list (str * nat) := [\n")
	for i, e := range t.ByName {
		if i > 0 {
			sb.WriteString(";\n")
		}
		fmt.Fprintf(&sb, "  (* %s *) (%s, %s%%nat)", e[0], CoqStr(e[0]), e[1])
	}
	sb.WriteString("\n].\n\nDefinition gen_tables : tables := {| ops_str := gen_ops_str; ops_unm := gen_ops_unm; by_name := gen_by_name |}.\n")
	return sb.String()
}

func safeComment(s string) string {
	s = strings.ReplaceAll(s, "*)", "* )")
	s = strings.ReplaceAll(s, "(*", "( *")
	s = strings.ReplaceAll(s, "\"", "''")
	return s
}

// ---- JSON ASTs as Coq terms ---------------------------------------------------------------------

func coqNum(f float64) string {
	if math.IsInf(f, 0) || math.IsNaN(f) || f != math.Trunc(f) {
		return "(JNum JFrac)"
	}
	z, _ := new(big.Float).SetFloat64(f).Int(nil)
	return fmt.Sprintf("(jint (%s))", z.String())
}

// CoqJSONOrdered parses the first JSON value of data keeping the member order.
func CoqJSONOrdered(data []byte) (string, error) {
	dec := json.NewDecoder(bytes.NewReader(data))
	dec.UseNumber()
	var sb strings.Builder
	if err := coqTokens(dec, &sb); err != nil {
		return "", err
	}
	return sb.String(), nil
}

func coqTokens(dec *json.Decoder, sb *strings.Builder) error {
	tok, err := dec.Token()
	if err != nil {
		return err
	}
	switch t := tok.(type) {
	case json.Delim:
		switch t {
		case '{':
			sb.WriteString("(JObj [")
			first := true
			for dec.More() {
				k, err := dec.Token()
				if err != nil {
					return err
				}
				if !first {
					sb.WriteByte(';')
				}
				first = false
				sb.WriteString("(jmem " + CoqStr(k.(string)) + " ")
				if err := coqTokens(dec, sb); err != nil {
					return err
				}
				sb.WriteByte(')')
			}
			if _, err := dec.Token(); err != nil {
				return err
			}
			sb.WriteString("])")
		case '[':
			sb.WriteString("(JArr [")
			first := true
			for dec.More() {
				if !first {
					sb.WriteByte(';')
				}
				first = false
				if err := coqTokens(dec, sb); err != nil {
					return err
				}
			}
			if _, err := dec.Token(); err != nil {
				return err
			}
			sb.WriteString("])")
		default:
			return io.ErrUnexpectedEOF
		}
	case json.Number:
		f, err := t.Float64()
		if err != nil {
			return err
		}
		sb.WriteString(coqNum(f))
	case string:
		sb.WriteString("(JStr " + CoqStr(t) + ")")
	case bool:
		fmt.Fprintf(sb, "(JBool %s)", coqBool(t))
	case nil:
		sb.WriteString("JNull")
	}
	return nil
}

// CoqJSONAny renders what encoding/json decodes into `any` (the input of decodeValue),
// object members in sorted key order.
func CoqJSONAny(v any) string {
	var sb strings.Builder
	coqAny(&sb, v)
	return sb.String()
}

func coqAny(sb *strings.Builder, v any) {
	switch t := v.(type) {
	case nil:
		sb.WriteString("JNull")
	case bool:
		fmt.Fprintf(sb, "(JBool %s)", coqBool(t))
	case float64:
		sb.WriteString(coqNum(t))
	case string:
		sb.WriteString("(JStr " + CoqStr(t) + ")")
	case []any:
		sb.WriteString("(JArr [")
		for i, e := range t {
			if i > 0 {
				sb.WriteByte(';')
			}
			coqAny(sb, e)
		}
		sb.WriteString("])")
	case map[string]any:
		keys := make([]string, 0, len(t))
		for k := range t {
			keys = append(keys, k)
		}
		sort.Strings(keys)
		sb.WriteString("(JObj [")
		for i, k := range keys {
			if i > 0 {
				sb.WriteByte(';')
			}
			sb.WriteString("(jmem " + CoqStr(k) + " ")
			coqAny(sb, t[k])
			sb.WriteByte(')')
		}
		sb.WriteString("])")
	}
}

// CanonCopy is a deep copy of a tree with recovered positions unset and empty slices nil:
// what the property allows a round trip to change (the second by my reading of "equal").
func CanonCopy(v reflect.Value) reflect.Value {
	t := v.Type()
	if t == PosT {
		if v.Interface().(syntax.Pos).IsRecovered() {
			return reflect.Zero(t)
		}
		return v
	}
	switch v.Kind() {
	case reflect.Pointer:
		if v.IsNil() {
			return v
		}
		p := reflect.New(t.Elem())
		p.Elem().Set(CanonCopy(v.Elem()))
		return p
	case reflect.Interface:
		if v.IsNil() {
			return v
		}
		r := reflect.New(t).Elem()
		r.Set(CanonCopy(v.Elem()))
		return r
	case reflect.Struct:
		r := reflect.New(t).Elem()
		for i := 0; i < v.NumField(); i++ {
			if t.Field(i).IsExported() {
				r.Field(i).Set(CanonCopy(v.Field(i)))
			}
		}
		return r
	case reflect.Slice:
		if v.Len() == 0 {
			return reflect.Zero(t)
		}
		r := reflect.MakeSlice(t, v.Len(), v.Len())
		for i := 0; i < v.Len(); i++ {
			r.Index(i).Set(CanonCopy(v.Index(i)))
		}
		return r
	}
	return v
}

// HasRecovered reports whether any position field of the tree is a recovered position.
func HasRecovered(n syntax.Node) bool {
	found := false
	var rec func(v reflect.Value)
	rec = func(v reflect.Value) {
		if found {
			return
		}
		if v.Type() == PosT {
			if v.Interface().(syntax.Pos).IsRecovered() {
				found = true
			}
			return
		}
		switch v.Kind() {
		case reflect.Pointer, reflect.Interface:
			if !v.IsNil() {
				rec(v.Elem())
			}
		case reflect.Slice:
			for i := 0; i < v.Len(); i++ {
				rec(v.Index(i))
			}
		case reflect.Struct:
			for i := 0; i < v.NumField(); i++ {
				if v.Type().Field(i).IsExported() {
					rec(v.Field(i))
				}
			}
		}
	}
	rec(reflect.ValueOf(n))
	return found
}
