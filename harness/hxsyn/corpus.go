package hxsyn

import (
	"encoding/json"
	"math/rand/v2"
	"os"
	"path/filepath"
	"strings"

	"mvdan.cc/sh/v3/syntax"
)

var Langs = []syntax.LangVariant{syntax.LangBash, syntax.LangPOSIX, syntax.LangMirBSDKorn, syntax.LangBats, syntax.LangZsh}
var LangNames = []string{"bash", "posix", "mksh", "bats", "zsh"}

// Corpus returns the string literals of the repository's parser and printer test
// tables (read as data at run time).
func Corpus(repo string) ([]string, error) {
	return TestLiterals(filepath.Join(repo, "syntax", "filetests_test.go"), filepath.Join(repo, "syntax", "printer_test.go"))
}

// Extra programs for shapes the tables exercise little: comments around
// statements, case items and array elements, zsh modifiers, declare clauses.
var Extra = []string{
	"local bar", "declare -a foo=(b1 $(b2))", "export A=1 B", "readonly x", "typeset -i n=3", "nameref r=x",
	"${foo:t5:h2:l}", "${foo:a:b}", "${foo:u}", "echo ${(f)foo:h} ${#foo} ${foo[(r)x]}",
	"case i in\nx)\n\ta\n\t;;\n\t#a\n#b\n\t#c\ny) ;;\nesac",
	"case i in\n# l1\n# l2\nx) a ;; # t1\n# t2\n# t3\nesac",
	"foo # t1\n# n1\n# n2\nbar",
	"# l1\n# l2\nfoo | # p1\n# p2\nbar # t1\n",
	"a=(\n# c1\n# c2\nx # t1\n# t2\n# t3\ny\n)",
	"declare -A m=(\n[a]=b # t1\n# t2\n[c]=d\n# last\n)",
	"{ a; } # t1\n# t2\n",
	"if a; then # c1\n# c2\nb # c3\n# c4\nelse # c5\nc\n# c6\nfi # c7",
	"foo <<EOF # c1\nbody\nEOF\n# c2\n",
	"a && # c1\n# c2\nb # c3",
	"for i in 1 2; do # c1\necho $i # c2\n# c3\ndone # c4",
	"f() { # c1\n:; # c2\n} # c3",
	"[[ a == b && -n $c ]] # t",
	"let i++ 'j=2' # t",
	"time -p foo | bar",
	"coproc x { a; }",
	"@test \"desc\" { true; }",
	"echo $((a[1] + b ? c : d)) $(( (x) ))",
	"for ((i = 0; i < 3; i++)); do :; done",
	"select x in a b; do break; done",
	"echo <(a) >(b) @(x|y) ?(z)",
	"x=(a [2]=b) y+=(c)",
	"function f { a; }; function g() (b)",
	"${a:1:2} ${a/x/y} ${a//x} ${a:-b} ${!p*} ${!a[@]} ${a^^}",
}

// Mutate derives a program from corpus items: splices, comment insertions, byte
// deletions. Deterministic in r.
func Mutate(r *rand.Rand, corpus []string) string {
	pick := func() string { return corpus[r.IntN(len(corpus))] }
	a := pick()
	switch r.IntN(8) {
	case 0:
		return a + "\n" + pick()
	case 1:
		return a + " # trailing\n# next\n# next2\n" + pick()
	case 2:
		return "# lead\n" + a + " # t1\n# t2\n"
	case 3:
		return "{\n" + a + "\n# in block\n}\n"
	case 4:
		return "case x in\n# c0\na) " + a + " ;; # c1\n# c2\n# c3\nb) " + pick() + " ;;\n# c4\nesac"
	case 5:
		return "x=(\n# e0\n" + strings.ReplaceAll(a, "\n", " ") + " # e1\n# e2\n)"
	case 6:
		if len(a) > 1 {
			i := r.IntN(len(a))
			return a[:i] + a[i+1:]
		}
		return a
	default:
		return "if " + a + "; then # c1\n" + pick() + " # c2\n# c3\nfi # c4\n# c5"
	}
}

// ParseAll parses src in every language variant with comments kept.
func ParseAll(src string, f func(lang int, file *syntax.File)) {
	for i, l := range Langs {
		p := syntax.NewParser(syntax.KeepComments(true), syntax.Variant(l))
		var file *syntax.File
		var err error
		func() {
			defer func() {
				if r := recover(); r != nil {
					file = nil
				}
			}()
			file, err = p.Parse(strings.NewReader(src), "")
		}()
		if err != nil || file == nil {
			continue
		}
		f(i, file)
	}
}

// ParseRecover parses src in every variant with RecoverErrors; only trees that really
// contain a recovered position are handed over.
func ParseRecover(src string, f func(lang int, file *syntax.File)) {
	for i, l := range Langs {
		p := syntax.NewParser(syntax.KeepComments(true), syntax.Variant(l), syntax.RecoverErrors(8))
		var file *syntax.File
		var err error
		func() {
			defer func() {
				if r := recover(); r != nil {
					file = nil
				}
			}()
			file, err = p.Parse(strings.NewReader(src), "")
		}()
		if err != nil || file == nil || !HasRecovered(file) {
			continue
		}
		f(i, file)
	}
}

// Regress is one item of a pinned regression corpus (corpus/<id>/regress.jsonl): a shell
// program (Src) or a JSON document (Doc), visited first on every seed and tier and checked by
// the same oracles as the generated inputs.
type Regress struct {
	Src string `json:"src"`
	Doc string `json:"doc"`
	Why string `json:"why"`
}

func LoadRegress(path string) ([]Regress, error) {
	data, err := os.ReadFile(path)
	if err != nil {
		return nil, err
	}
	var out []Regress
	for _, line := range strings.Split(string(data), "\n") {
		line = strings.TrimSpace(line)
		if line == "" || !strings.HasPrefix(line, "{") {
			continue
		}
		var r Regress
		if err := json.Unmarshal([]byte(line), &r); err != nil {
			return nil, err
		}
		out = append(out, r)
	}
	return out, nil
}
