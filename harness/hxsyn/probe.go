package hxsyn

import (
	"fmt"
	"reflect"
	"sort"
	"strings"

	"mvdan.cc/sh/v3/syntax"
)

// ---- probing syntax.Walk -------------------------------------------------------------
//
// For every node kind one fully populated node is built (every pointer and
// interface field set, every list with two elements, every position valid and
// distinct) and syntax.Walk is run on it with a callback that enters only the root.
// The order in which the root's children arrive, and whether they arrive before or
// after f(nil), is the kind's row of the walk table. Fields that never arrive are
// simply absent from the row (table_ok then fails in Coq).

type WStep struct {
	Path []int
	Mode string // WOne WNilable WList WComments WDeferEndAfter WDeferPosAfter WUnknown
	Name string
}

type WRow struct {
	Sid    int
	Steps  []WStep
	NoCase bool     // Walk panics with "unexpected node type"
	Notes  []string // anything irregular seen
}

// nodePath is one node-reaching path of a kind, mirror of Walk.v node_paths.
type nodePath struct {
	Path  []int
	Class string // ptr list comments
	Name  string
}

func (s *Schema) isNodeRef(t Ty) bool {
	switch t.K {
	case "ptr":
		return s.Structs[t.ID].Node
	case "iface":
		for _, i := range s.Ifaces[t.ID].Impls {
			if !s.Structs[i].Node {
				return false
			}
		}
		return true
	}
	return false
}

func (s *Schema) classOf(t Ty) string {
	switch t.K {
	case "ptr":
		if s.Structs[t.ID].Node {
			return "ptr"
		}
		return "sub"
	case "iface":
		if s.isNodeRef(t) {
			return "ptr"
		}
		return "bad"
	case "slice":
		e := *t.Elem
		switch e.K {
		case "ptr", "iface":
			if s.isNodeRef(e) {
				return "list"
			}
			return "bad"
		case "struct":
			if s.Structs[e.ID].Node {
				return "comments"
			}
			return "bad"
		case "slice":
			return "bad"
		}
		return "none"
	case "struct":
		return "bad"
	}
	return "none"
}

func (s *Schema) nodePaths(sid int) []nodePath {
	var out []nodePath
	d := s.Structs[sid]
	for i, f := range d.Fields {
		switch c := s.classOf(f.Ty); c {
		case "ptr", "list", "comments":
			out = append(out, nodePath{[]int{i}, c, f.Name})
		case "sub":
			for j, g := range s.Structs[f.Ty.ID].Fields {
				switch c2 := s.classOf(g.Ty); c2 {
				case "ptr", "list", "comments":
					out = append(out, nodePath{[]int{i, j}, c2, f.Name + "." + g.Name})
				}
			}
		}
	}
	return out
}

type builder struct {
	s    *Schema
	next uint
}

func (b *builder) pos() syntax.Pos {
	b.next += 10
	return syntax.NewPos(b.next, 1, b.next+1)
}

// pickImpl chooses the implementer with the fewest reference fields (a leaf-like one).
func (b *builder) pickImpl(iid int) int {
	best, bestN := -1, 1<<30
	for _, sid := range b.s.Ifaces[iid].Impls {
		n := 0
		for _, f := range b.s.Structs[sid].Fields {
			if c := b.s.classOf(f.Ty); c != "none" {
				n++
			}
		}
		if n < bestN {
			best, bestN = sid, n
		}
	}
	return best
}

// fill populates v (addressable) to the given depth; listLen elements per list.
func (b *builder) fill(v reflect.Value, depth, listLen int) {
	t := v.Type()
	if t == PosT {
		v.Set(reflect.ValueOf(b.pos()))
		return
	}
	switch v.Kind() {
	case reflect.Struct:
		for i := 0; i < v.NumField(); i++ {
			if t.Field(i).IsExported() {
				b.fill(v.Field(i), depth, listLen)
			}
		}
	case reflect.Pointer:
		if depth <= 0 {
			return
		}
		p := reflect.New(t.Elem())
		b.fill(p.Elem(), depth-1, 1)
		v.Set(p)
	case reflect.Interface:
		if depth <= 0 {
			return
		}
		iid, ok := b.s.iid[t]
		if !ok {
			return
		}
		sid := b.pickImpl(iid)
		if sid < 0 {
			return
		}
		p := reflect.New(b.s.Structs[sid].T)
		b.fill(p.Elem(), depth-1, 1)
		v.Set(p)
	case reflect.Slice:
		if depth <= 0 {
			return
		}
		et := t.Elem()
		if et.Kind() == reflect.Struct && reflect.PointerTo(et).Implements(NodeT) {
			return // comment lists are set by the probes themselves
		}
		sl := reflect.MakeSlice(t, listLen, listLen)
		for i := 0; i < listLen; i++ {
			b.fill(sl.Index(i), depth, 1)
		}
		v.Set(sl)
	case reflect.String:
		b.next++
		v.SetString(fmt.Sprintf("s%d", b.next))
	}
}

func (s *Schema) fieldByPath(root reflect.Value, path []int) (reflect.Value, bool) {
	sid, _ := s.sid[root.Type()]
	d := s.Structs[sid]
	f := root.Field(d.Fields[path[0]].Idx)
	if len(path) == 1 {
		return f, true
	}
	if f.IsNil() {
		return reflect.Value{}, false
	}
	d2 := s.Structs[d.Fields[path[0]].Ty.ID]
	return f.Elem().Field(d2.Fields[path[1]].Idx), true
}

type arrival struct {
	path  int // index into paths
	elem  int
	after bool // after f(nil) of the root
}

// runProbe walks root entering only the root; maps arrivals back to paths.
func (s *Schema) runProbe(root reflect.Value, paths []nodePath) (arr []arrival, panicked bool, msg string, typedNil bool, stray int) {
	ptrs := map[any][2]int{}
	texts := map[string][2]int{}
	for pi, p := range paths {
		f, ok := s.fieldByPath(root.Elem(), p.Path)
		if !ok {
			continue
		}
		switch p.Class {
		case "ptr":
			if !f.IsNil() {
				e := f
				if e.Kind() == reflect.Interface {
					e = e.Elem()
				}
				ptrs[e.Interface()] = [2]int{pi, 0}
			}
		case "list":
			for i := 0; i < f.Len(); i++ {
				e := f.Index(i)
				if e.Kind() == reflect.Interface {
					e = e.Elem()
				}
				ptrs[e.Interface()] = [2]int{pi, i}
			}
		case "comments":
			for i := 0; i < f.Len(); i++ {
				texts[f.Index(i).Addr().Interface().(*syntax.Comment).Text] = [2]int{pi, i}
			}
		}
	}
	rootNode := root.Interface().(syntax.Node)
	after := false
	depth := 0
	func() {
		defer func() {
			if r := recover(); r != nil {
				panicked = true
				msg = fmt.Sprint(r)
			}
		}()
		syntax.Walk(rootNode, func(n syntax.Node) bool {
			if n == nil {
				if depth == 1 {
					after = true
				}
				depth--
				return true
			}
			if n == rootNode && depth == 0 {
				depth++
				return true
			}
			rv := reflect.ValueOf(n)
			if rv.Kind() == reflect.Pointer && rv.IsNil() {
				typedNil = true
				return false
			}
			if c, ok := n.(*syntax.Comment); ok {
				if pe, ok := texts[c.Text]; ok {
					arr = append(arr, arrival{pe[0], pe[1], after})
					return false
				}
			}
			if pe, ok := ptrs[n]; ok {
				arr = append(arr, arrival{pe[0], pe[1], after})
			} else {
				stray++
			}
			return false
		})
	}()
	return
}

func mkComment(off uint, text string) syntax.Comment {
	return syntax.Comment{Hash: syntax.NewPos(off, 1, off+1), Text: text}
}

// rule predictions, the same rules as Walk.v step_targets
func predictSplit(mode string, P, E syntax.Pos, cs []syntax.Comment) (now, dfr int) {
	for i, c := range cs {
		var deferred bool
		switch mode {
		case "WComments":
			deferred = false
		case "WDeferEndAfter":
			deferred = !E.After(c.Pos())
		case "WDeferPosAfter":
			deferred = c.Pos().After(P)
		}
		if deferred {
			return i, len(cs) - i
		}
	}
	return len(cs), 0
}

// ProbeWalk builds the walk table row of every node kind.
func (s *Schema) ProbeWalk() []WRow {
	var rows []WRow
	for sid, d := range s.Structs {
		row := WRow{Sid: sid}
		if !d.Node {
			row.NoCase = true
			rows = append(rows, row)
			continue
		}
		paths := s.nodePaths(sid)
		build := func() reflect.Value {
			b := &builder{s: s, next: 1000}
			root := reflect.New(d.T)
			b.fill(root.Elem(), 5, 2)
			return root
		}
		setComments := func(root reflect.Value, pi int, cs []syntax.Comment) {
			f, ok := s.fieldByPath(root.Elem(), paths[pi].Path)
			if ok {
				f.Set(reflect.ValueOf(cs))
			}
		}
		// run 0: everything populated; comment lists hold two comments placed before the node
		root := build()
		for pi, p := range paths {
			if p.Class == "comments" {
				setComments(root, pi, []syntax.Comment{mkComment(uint(10+20*pi), fmt.Sprintf("c%d_0", pi)), mkComment(uint(15+20*pi), fmt.Sprintf("c%d_1", pi))})
			}
		}
		arr, panicked, msg, typedNil, stray := s.runProbe(root, paths)
		if panicked {
			if strings.Contains(msg, "unexpected node type") {
				row.NoCase = true
			} else {
				row.Notes = append(row.Notes, "populated probe panicked: "+msg)
			}
			rows = append(rows, row)
			continue
		}
		if typedNil || stray > 0 {
			row.Notes = append(row.Notes, fmt.Sprintf("populated probe: typedNil=%v stray=%d", typedNil, stray))
		}
		// order of first arrival; regularity of each path
		var order []int
		seen := map[int][]arrival{}
		for _, a := range arr {
			if _, ok := seen[a.path]; !ok {
				order = append(order, a.path)
			}
			seen[a.path] = append(seen[a.path], a)
		}
		contiguous := func(pi int) bool {
			first, last, n := -1, -1, 0
			for i, a := range arr {
				if a.path == pi {
					if first < 0 {
						first = i
					}
					last = i
					n++
				}
			}
			return last-first+1 == n
		}
		for _, pi := range order {
			p := paths[pi]
			as := seen[pi]
			st := WStep{Path: p.Path, Name: p.Name, Mode: "WUnknown"}
			want := 1
			if p.Class != "ptr" {
				want = 2
			}
			regular := len(as) == want && contiguous(pi)
			for i, a := range as {
				if a.elem != i || a.after {
					regular = false
				}
			}
			if !regular {
				row.Notes = append(row.Notes, fmt.Sprintf("%s: irregular arrivals %v", p.Name, as))
				row.Steps = append(row.Steps, st)
				continue
			}
			switch p.Class {
			case "ptr":
				// nil probe: required or nilable
				r2 := build()
				f, _ := s.fieldByPath(r2.Elem(), p.Path)
				f.Set(reflect.Zero(f.Type()))
				arr2, pan2, _, tn2, _ := s.runProbe(r2, paths)
				visited := false
				for _, a := range arr2 {
					if a.path == pi {
						visited = true
					}
				}
				switch {
				case visited:
					st.Mode = "WUnknown"
				case pan2 || tn2:
					st.Mode = "WOne"
				default:
					st.Mode = "WNilable"
				}
			case "list":
				st.Mode = "WList"
			case "comments":
				st.Mode = s.classifyComments(d, paths, pi, build, &row)
			}
			row.Steps = append(row.Steps, st)
		}
		// a nil sub-struct pointer must be skipped silently
		subs := map[int]bool{}
		for _, p := range paths {
			if len(p.Path) == 2 {
				subs[p.Path[0]] = true
			}
		}
		for fi := range subs {
			r3 := build()
			f := r3.Elem().Field(d.Fields[fi].Idx)
			f.Set(reflect.Zero(f.Type()))
			arr3, pan3, _, _, _ := s.runProbe(r3, paths)
			bad := pan3
			for _, a := range arr3 {
				if len(paths[a.path].Path) == 2 && paths[a.path].Path[0] == fi {
					bad = true
				}
			}
			if bad {
				row.Notes = append(row.Notes, "nil "+d.Fields[fi].Name+" is not skipped")
				for i := range row.Steps {
					if len(row.Steps[i].Path) == 2 && row.Steps[i].Path[0] == fi {
						row.Steps[i].Mode = "WUnknown"
					}
				}
			}
		}
		for pi, p := range paths {
			if _, ok := seen[pi]; !ok {
				row.Notes = append(row.Notes, "never visited: "+d.Name+"."+p.Name)
			}
		}
		rows = append(rows, row)
	}
	return rows
}

// classifyComments finds the rule that explains how the comment list at paths[pi]
// is split around f(nil) for comments placed before, inside, at the end of and
// after the node.
func (s *Schema) classifyComments(d *Struct, paths []nodePath, pi int, build func() reflect.Value, row *WRow) string {
	root := build()
	n := root.Interface().(syntax.Node)
	var P, E syntax.Pos
	ok := true
	func() {
		defer func() {
			if recover() != nil {
				ok = false
			}
		}()
		P, E = n.Pos(), n.End()
	}()
	var lists [][]syntax.Comment
	if ok && P.IsValid() && E.IsValid() && P.Offset() > 100 && E.Offset() > 100 {
		p, e := P.Offset(), E.Offset()
		lo, hi := min(p, e), max(p, e)
		mid := (lo + hi) / 2
		lists = [][]syntax.Comment{
			{mkComment(lo-50, "a0"), mkComment(lo-40, "a1"), mkComment(lo-30, "a2")},
			{mkComment(lo-50, "b0"), mkComment(hi+10, "b1"), mkComment(hi+20, "b2")},
			{mkComment(lo-50, "d0"), mkComment(hi+10, "d1"), mkComment(hi+20, "d2"), mkComment(hi+30, "d3")},
			{mkComment(mid, "m0")},
			{mkComment(p, "p0")},
			{mkComment(e, "e0")},
			{mkComment(p+1, "q0")},
			{mkComment(e-1, "f0")},
			{mkComment(lo-50, "x0"), mkComment(mid, "x1"), mkComment(hi, "x2"), mkComment(hi+10, "x3")},
			{mkComment(hi+10, "y0"), mkComment(lo-50, "y1")},
		}
	} else {
		row.Notes = append(row.Notes, "no usable Pos/End for comment probes of "+paths[pi].Name)
		lists = [][]syntax.Comment{{mkComment(10, "a0"), mkComment(20, "a1"), mkComment(30, "a2")}}
	}
	type obs struct{ now, dfr int }
	var observed []obs
	for _, cs := range lists {
		r := build()
		f, _ := s.fieldByPath(r.Elem(), paths[pi].Path)
		f.Set(reflect.ValueOf(cs))
		arr, pan, _, _, _ := s.runProbe(r, paths)
		if pan {
			return "WUnknown"
		}
		o := obs{}
		idx := 0
		good := true
		for _, a := range arr {
			if a.path != pi {
				continue
			}
			if a.elem != idx {
				good = false
			}
			idx++
			if a.after {
				o.dfr++
			} else {
				if o.dfr > 0 {
					good = false
				}
				o.now++
			}
		}
		if !good || idx != len(cs) {
			row.Notes = append(row.Notes, fmt.Sprintf("%s: %d comments, arrivals %v", paths[pi].Name, len(cs), arr))
			return "WUnknown"
		}
		observed = append(observed, o)
	}
	var fits []string
	for _, mode := range []string{"WComments", "WDeferEndAfter", "WDeferPosAfter"} {
		all := true
		for i, cs := range lists {
			now, dfr := predictSplit(mode, P, E, cs)
			if now != observed[i].now || dfr != observed[i].dfr {
				all = false
			}
		}
		if all {
			fits = append(fits, mode)
		}
	}
	if len(fits) == 0 {
		row.Notes = append(row.Notes, fmt.Sprintf("%s: no rule explains %v", paths[pi].Name, observed))
		return "WUnknown"
	}
	return fits[0]
}

// CoqWalkTable renders coq/Gen/WalkTable.v.
func (s *Schema) CoqWalkTable(rows []WRow) string {
	var sb strings.Builder
	fmt.Fprintf(&sb, genHeader, "C14")
	sb.WriteString("(* Row of a node kind = the steps syntax.Walk was observed to take on a fully populated node of that kind. *)\n")
	sb.WriteString("From Verif Require Import Base.Str Syntax.Schema Syntax.Walk.\n\n")
	sb.WriteString("Definition gen_walk_table : walk_table := [\n")
	for i, r := range rows {
		d := s.Structs[r.Sid]
		fmt.Fprintf(&sb, "  (* %d %s *) ", r.Sid, d.Name)
		if r.NoCase {
			sb.WriteString("None")
		} else {
			sb.WriteString("Some [")
			for j, st := range r.Steps {
				if j > 0 {
					sb.WriteString("; ")
				}
				var ps []string
				for _, p := range st.Path {
					ps = append(ps, fmt.Sprintf("%d%%nat", p))
				}
				fmt.Fprintf(&sb, "\n      (* %s *) {| w_path := [%s]; w_mode := %s |}", st.Name, strings.Join(ps, ";"), st.Mode)
			}
			sb.WriteString("]")
		}
		if i < len(rows)-1 {
			sb.WriteString(";")
		}
		sb.WriteString("\n")
	}
	sb.WriteString("].\n")
	return sb.String()
}

// Missing lists the node-reaching fields that the probe never saw visited.
func Missing(rows []WRow) []string {
	var out []string
	for _, r := range rows {
		for _, n := range r.Notes {
			out = append(out, n)
		}
	}
	sort.Strings(out)
	return out
}
