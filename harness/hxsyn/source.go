package hxsyn

import (
	"fmt"
	"go/ast"
	"go/build"
	"go/constant"
	"go/importer"
	"go/parser"
	"go/token"
	"go/types"
	"path/filepath"
	"reflect"
	"sort"
	"strconv"
)

// sourceFiles parses the non-test files of <repo>/syntax that the default build
// selects (the source is read as data; nothing is imported from it).
func sourceFiles(repo string) (*token.FileSet, []*ast.File, error) {
	dir := filepath.Join(repo, "syntax")
	ctx := build.Default
	pkg, err := ctx.ImportDir(dir, 0)
	if err != nil {
		return nil, nil, err
	}
	fset := token.NewFileSet()
	var files []*ast.File
	for _, name := range pkg.GoFiles {
		f, err := parser.ParseFile(fset, filepath.Join(dir, name), nil, 0)
		if err != nil {
			return nil, nil, err
		}
		files = append(files, f)
	}
	return fset, files, nil
}

// SourceNodeTypes returns the names of the struct types of package syntax that
// declare both a Pos and an End method on a pointer receiver, read from the
// source: what the Registry must list.
func SourceNodeTypes(repo string) ([]string, error) {
	_, files, err := sourceFiles(repo)
	if err != nil {
		return nil, err
	}
	structs := map[string]bool{}
	meth := map[string]map[string]bool{}
	for _, f := range files {
		for _, d := range f.Decls {
			switch d := d.(type) {
			case *ast.GenDecl:
				for _, sp := range d.Specs {
					if ts, ok := sp.(*ast.TypeSpec); ok {
						if _, ok := ts.Type.(*ast.StructType); ok && ts.Name.IsExported() {
							structs[ts.Name.Name] = true
						}
					}
				}
			case *ast.FuncDecl:
				if d.Recv == nil || len(d.Recv.List) != 1 {
					continue
				}
				if st, ok := d.Recv.List[0].Type.(*ast.StarExpr); ok {
					if id, ok := st.X.(*ast.Ident); ok {
						if meth[id.Name] == nil {
							meth[id.Name] = map[string]bool{}
						}
						meth[id.Name][d.Name.Name] = true
					}
				}
			}
		}
	}
	var out []string
	for name := range structs {
		if meth[name]["Pos"] && meth[name]["End"] {
			out = append(out, name)
		}
	}
	sort.Strings(out)
	return out, nil
}

// RegistryDiff compares the Registry with the source declarations.
func RegistryDiff(repo string) (missing, extra []string, err error) {
	src, err := SourceNodeTypes(repo)
	if err != nil {
		return nil, nil, err
	}
	have := map[string]bool{}
	for _, n := range Registry {
		have[reflect.TypeOf(n).Elem().Name()] = true
	}
	in := map[string]bool{}
	for _, s := range src {
		in[s] = true
		if !have[s] {
			missing = append(missing, s)
		}
	}
	for h := range have {
		if !in[h] {
			extra = append(extra, h)
		}
	}
	sort.Strings(extra)
	return missing, extra, nil
}

// OpConst is one exported constant of an operator type declared in the source.
type OpConst struct {
	Type  string
	Name  string
	Value uint64
}

// SourceOpConsts type-checks the syntax package from source and returns every
// exported constant whose type is a named unsigned integer type of the package.
func SourceOpConsts(repo string) ([]OpConst, error) {
	fset, files, err := sourceFiles(repo)
	if err != nil {
		return nil, err
	}
	conf := types.Config{Importer: importer.ForCompiler(fset, "source", nil), Error: func(error) {}}
	pkg, _ := conf.Check("mvdan.cc/sh/v3/syntax", fset, files, nil)
	if pkg == nil {
		return nil, fmt.Errorf("type-check of %s/syntax failed", repo)
	}
	var out []OpConst
	sc := pkg.Scope()
	for _, name := range sc.Names() {
		c, ok := sc.Lookup(name).(*types.Const)
		if !ok || !c.Exported() {
			continue
		}
		nt, ok := c.Type().(*types.Named)
		if !ok || nt.Obj().Pkg() != pkg {
			continue
		}
		b, ok := nt.Underlying().(*types.Basic)
		if !ok || b.Info()&types.IsUnsigned == 0 {
			continue
		}
		v, ok := constant.Uint64Val(c.Val())
		if !ok {
			return nil, fmt.Errorf("constant %s has no uint64 value", name)
		}
		out = append(out, OpConst{Type: nt.Obj().Name(), Name: name, Value: v})
	}
	sort.Slice(out, func(i, j int) bool {
		if out[i].Type != out[j].Type {
			return out[i].Type < out[j].Type
		}
		if out[i].Value != out[j].Value {
			return out[i].Value < out[j].Value
		}
		return out[i].Name < out[j].Name
	})
	return out, nil
}

// TestLiterals returns every string literal of the given Go test files, read
// with go/parser as data.
func TestLiterals(paths ...string) ([]string, error) {
	var out []string
	seen := map[string]bool{}
	for _, p := range paths {
		fset := token.NewFileSet()
		f, err := parser.ParseFile(fset, p, nil, 0)
		if err != nil {
			return nil, err
		}
		ast.Inspect(f, func(n ast.Node) bool {
			if bl, ok := n.(*ast.BasicLit); ok && bl.Kind == token.STRING {
				if s, err := strconv.Unquote(bl.Value); err == nil && !seen[s] {
					seen[s] = true
					out = append(out, s)
				}
			}
			return true
		})
	}
	return out, nil
}
