// Package hxbash runs small generated shell programs in the real interpreter
// (in-process, context timeout, no external commands) and in real bash 5.2
// (many cases per bash process, clean environment, LC_ALL=C.UTF-8).
// Shared by the c19/c21/c25 harnesses.
package hxbash

import (
	"bytes"
	"context"
	"fmt"
	"os"
	"os/exec"
	"path/filepath"
	"strconv"
	"strings"
	"time"

	"mvdan.cc/sh/v3/expand"
	"mvdan.cc/sh/v3/interp"
	"mvdan.cc/sh/v3/syntax"
)

// Result of one program: stdout, "failed" (non-zero status), and a kind:
// "" normal, "panic", "timeout", "parse" (interp parser rejected it), "lost".
type Result struct {
	Out    string
	Failed bool
	Kind   string
	Err    string
}

func noExec(next interp.ExecHandlerFunc) interp.ExecHandlerFunc {
	return func(ctx context.Context, args []string) error {
		return interp.ExitStatus(127)
	}
}

// Interp runs src in a fresh Runner whose working directory is dir.
func Interp(src, dir string) (res Result) {
	defer func() {
		if r := recover(); r != nil {
			res = Result{Kind: "panic", Err: fmt.Sprint(r), Failed: true}
		}
	}()
	f, err := syntax.NewParser(syntax.Variant(syntax.LangBash)).Parse(strings.NewReader(src), "")
	if err != nil {
		return Result{Kind: "parse", Err: err.Error(), Failed: true}
	}
	var out, errb bytes.Buffer
	r, err := interp.New(interp.StdIO(nil, &out, &errb),
		interp.Env(expand.ListEnviron("LC_ALL=C.UTF-8", "PATH=/nonexistent", "HOME="+dir)),
		interp.Dir(dir), interp.ExecHandlers(noExec))
	if err != nil {
		return Result{Kind: "new", Err: err.Error(), Failed: true}
	}
	ctx, cancel := context.WithTimeout(context.Background(), 3*time.Second)
	defer cancel()
	done := make(chan error, 1)
	go func() {
		defer func() {
			if r := recover(); r != nil {
				done <- fmt.Errorf("PANIC: %v", r)
			}
		}()
		done <- r.Run(ctx, f)
	}()
	select {
	case err = <-done:
	case <-time.After(8 * time.Second):
		return Result{Kind: "timeout", Failed: true, Out: out.String()}
	}
	res.Out = out.String()
	if err != nil {
		res.Failed = true
		res.Err = err.Error()
		if strings.HasPrefix(res.Err, "PANIC: ") {
			res.Kind = "panic"
		} else if ctx.Err() != nil {
			res.Kind = "timeout"
		}
	}
	if res.Err == "" {
		res.Err = errb.String()
	}
	return res
}

const mark = "\x1e"

// Bash runs every program of srcs in as few bash processes as possible: program i
// is written to <scratch>/cases/i.sh and sourced with cwd dirs[i] (scratch when
// dirs is nil). Forks are very expensive in this sandbox, so a program is sourced
// in the main shell (after the caller's reset text, which must undo whatever a
// program can leave behind) unless sub[i] is set, in which case it runs in a
// subshell. If a program sourced in the main shell kills the shell, the batch is
// resumed from that program with sub forced on for it. stderr is discarded.
func Bash(srcs []string, dirs []string, sub []bool, reset, scratch string) ([]Result, error) {
	cdir := filepath.Join(scratch, "cases")
	if err := os.MkdirAll(cdir, 0o755); err != nil {
		return nil, err
	}
	defer os.RemoveAll(cdir)
	for i, s := range srcs {
		p := filepath.Join(cdir, strconv.Itoa(i)+".sh")
		if err := os.WriteFile(p, []byte(s+"\n"), 0o644); err != nil {
			return nil, err
		}
	}
	forced := map[int]bool{}
	res := make([]Result, len(srcs))
	start := 0
	for start < len(srcs) {
		var drv strings.Builder
		for i := start; i < len(srcs); i++ {
			p := filepath.Join(cdir, strconv.Itoa(i)+".sh")
			d := scratch
			if dirs != nil {
				d = dirs[i]
			}
			if (sub != nil && sub[i]) || forced[i] {
				fmt.Fprintf(&drv, "%s\n( cd '%s' && . '%s' ) 2>/dev/null </dev/null; printf '%s%%d%s' $?\n", reset, d, p, mark, mark)
			} else {
				fmt.Fprintf(&drv, "%s\ncd '%s' && . '%s' 2>/dev/null </dev/null; printf '%s%%d%s' $?\n", reset, d, p, mark, mark)
			}
		}
		drvp := filepath.Join(scratch, "driver.sh")
		if err := os.WriteFile(drvp, []byte(drv.String()), 0o644); err != nil {
			return nil, err
		}
		ctx, cancel := context.WithTimeout(context.Background(), time.Duration(60+len(srcs)/5)*time.Second)
		cmd := exec.CommandContext(ctx, "/usr/bin/bash", "--norc", "--noprofile", drvp)
		cmd.Env = []string{"PATH=/nonexistent", "LC_ALL=C.UTF-8", "HOME=" + scratch}
		cmd.Dir = scratch
		var out bytes.Buffer
		cmd.Stdout = &out
		_ = cmd.Run()
		timedOut := ctx.Err() != nil
		cancel()
		os.Remove(drvp)
		parts := strings.Split(out.String(), mark)
		// parts: out0, st0, out1, st1, ..., tail
		done := (len(parts) - 1) / 2
		for k := 0; k < done && start+k < len(srcs); k++ {
			st, _ := strconv.Atoi(parts[2*k+1])
			res[start+k] = Result{Out: parts[2*k], Failed: st != 0}
		}
		start += done
		if start < len(srcs) {
			if forced[start] {
				if timedOut {
					res[start] = Result{Kind: "timeout", Failed: true}
				} else {
					res[start] = Result{Kind: "lost", Failed: true}
				}
				start++
			} else {
				forced[start] = true
			}
		}
	}
	return res, nil
}

// SQ single-quotes s for shell source.
func SQ(s string) string {
	return "'" + strings.ReplaceAll(s, "'", `'\''`) + "'"
}
