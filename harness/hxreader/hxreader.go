// Package hxreader holds what the C07 and C09 harnesses share: the corpus of
// shell sources (string literals of the repository's test tables, read AS DATA
// with go/parser), an io.Reader that follows a read schedule, input mutators,
// and a dump of a parse result that includes every position.
package hxreader

import (
	"bytes"
	"fmt"
	"go/ast"
	"go/parser"
	"go/token"
	"io"
	"math/rand/v2"
	"os"
	"path/filepath"
	"sort"
	"strconv"
	"strings"

	"mvdan.cc/sh/v3/syntax"
	"mvdan.cc/sh/v3/syntax/typedjson"
)

// RepoDir is the tree under test (VERIF_REPO or /repo).
func RepoDir() string {
	if d := os.Getenv("VERIF_REPO"); d != "" {
		return d
	}
	return "/repo"
}

var Langs = []syntax.LangVariant{syntax.LangBash, syntax.LangPOSIX, syntax.LangMirBSDKorn, syntax.LangBats, syntax.LangZsh}

// Corpus returns the distinct string literals (1..maxLen bytes) of the given
// test files of the syntax package, sorted. The files are parsed, never run.
func Corpus(maxLen int, files ...string) []string {
	if len(files) == 0 {
		files = []string{"filetests_test.go", "printer_test.go", "parser_test.go"}
	}
	seen := map[string]bool{}
	for _, f := range files {
		fset := token.NewFileSet()
		af, err := parser.ParseFile(fset, filepath.Join(RepoDir(), "syntax", f), nil, 0)
		if err != nil {
			panic(err)
		}
		ast.Inspect(af, func(n ast.Node) bool {
			if bl, ok := n.(*ast.BasicLit); ok && bl.Kind == token.STRING {
				s, err := strconv.Unquote(bl.Value)
				if err == nil && len(s) > 0 && len(s) <= maxLen {
					seen[s] = true
				}
			}
			return true
		})
	}
	out := make([]string, 0, len(seen))
	for s := range seen {
		out = append(out, s)
	}
	sort.Strings(out)
	return out
}

// RegressItem is one pinned input: a source and the variants it is checked in.
type RegressItem struct {
	Src   string
	Langs []syntax.LangVariant
}

// Regress reads /verif/corpus/<id>/regress.txt (lines "<variant or *>\t<Go-quoted string>", '#' comments,
// {PAD:n} = n times 'a'): the pinned inputs a check visits first on every seed and tier.
func Regress(id string) []RegressItem {
	root := os.Getenv("VERIF_ROOT")
	if root == "" {
		root = "/verif"
	}
	data, err := os.ReadFile(filepath.Join(root, "corpus", id, "regress.txt"))
	if err != nil {
		panic(err)
	}
	var out []RegressItem
	for ln, line := range strings.Split(string(data), "\n") {
		if line == "" || strings.HasPrefix(line, "#") {
			continue
		}
		name, quoted, ok := strings.Cut(line, "\t")
		src, err := strconv.Unquote(quoted)
		if !ok || err != nil {
			panic(fmt.Sprintf("corpus/%s/regress.txt:%d: bad line", id, ln+1))
		}
		for {
			i := strings.Index(src, "{PAD:")
			if i < 0 {
				break
			}
			j := strings.IndexByte(src[i:], '}')
			n, err := strconv.Atoi(src[i+5 : i+j])
			if err != nil {
				panic(fmt.Sprintf("corpus/%s/regress.txt:%d: bad PAD", id, ln+1))
			}
			src = src[:i] + strings.Repeat("a", n) + src[i+j+1:]
		}
		it := RegressItem{Src: src}
		for _, l := range Langs {
			if name == "*" || name == l.String() {
				it.Langs = append(it.Langs, l)
			}
		}
		if len(it.Langs) == 0 {
			panic(fmt.Sprintf("corpus/%s/regress.txt:%d: unknown variant %q", id, ln+1, name))
		}
		out = append(out, it)
	}
	return out
}

// Extra inputs aimed at the reader: lookahead at buffer ends, escaped
// newlines, CRLF, NUL, multi-byte and invalid UTF-8, nested backquotes.
var Extra = []string{
	"echo <1-10> x", "echo <-> <5-> <-10>", "echo <12345678901234567890-1> y", "echo <1-10 x", "echo <2-3",
	"echo ${==foo}", "echo ${^^foo}", "echo ${~~foo}", "echo ${=foo} ${^foo} ${~foo}", "echo ${foo^^} ${foo,,}",
	"$\\\r\na", "\"foo\\\n  bar\"", "\\", "a \\", "a\\\nb c", "a \\\n b c", "a \\\r\n b c\r\nd\r\n",
	"foo\r\nbar\r\n", "a\x00b c\x00\x00d\n\x00e", "\x00", "a\rb", "a\r", "\\\r", "\\\r\n", "\\\n", "\\\\\n",
	"`echo \\\\\\\\\\$x`", "`echo \\\\\\\\\\`x`", "`echo \\`echo \\\\\\`echo \\\\\\\\\\\\\\$x\\\\\\`\\``",
	"\"`echo \\\"x\\\"`\"", "`a \\\n b`", "$(a \\\n b)", "echo \"a\\\r\nb\"", "echo 'a\\\nb' \\\n c",
	"cat <<EOF\nfoo \\\nbar\n$x \\\r\nEOF\n", "cat <<-EOF\n\tfoo\n\t\\\n\tEOF\n", "cat <<'EOF'\n\\\nEOF\n",
	"é", "echo é ü 世界 😀", "a=é; echo \"$a世\" '界'", "echo \xff", "é\xff", "echo \xc3", "echo \xe4\xb8", "echo \xf0\x9f\x98",
	"# comment \\\nfoo", "foo # c\\\r\nbar", "if a; then\r\n b\r\nfi\r\n", "a && \\\n b || \\\r\n c",
	"foo \\\n\\\n\\\nbar", "foo\\\n\\\nbar", "\"\\\n\"", "\"a\\\nb\\\nc\"", "${a\\\n}", "$((1 +\\\n 2))", "a=(b \\\n c)",
	"[[ a \\\n == b ]]", "case x in a\\\n) ;; esac", "f() { \\\n a; }", "<<EOF\\\n\nEOF", "echo $'a\\\nb'",
}

// SchedReader hands out data following a read schedule: each Read returns at
// most the next schedule entry (0 = a legal empty read), after the schedule
// is used up everything that fits. Eager: the Read delivering the last byte
// also returns io.EOF.
type SchedReader struct {
	Data  []byte
	Sched []int
	Eager bool
	Reads int
}

func (r *SchedReader) Read(p []byte) (int, error) {
	r.Reads++
	if len(r.Data) == 0 {
		return 0, io.EOF
	}
	want := len(r.Data)
	if len(r.Sched) > 0 {
		want = r.Sched[0]
		r.Sched = r.Sched[1:]
	}
	n := min(want, len(p), len(r.Data))
	copy(p, r.Data[:n])
	r.Data = r.Data[n:]
	if r.Eager && n > 0 && len(r.Data) == 0 {
		return n, io.EOF
	}
	return n, nil
}

func NewSched(data string, sched []int, eager bool) *SchedReader {
	return &SchedReader{Data: []byte(data), Sched: append([]int(nil), sched...), Eager: eager}
}

// Ones is the one-byte-reader schedule for n bytes.
func Ones(n int) []int {
	s := make([]int, n)
	for i := range s {
		s[i] = 1
	}
	return s
}

// RandSched draws a chunking of n bytes with zero-length reads mixed in.
func RandSched(r *rand.Rand, n int) []int {
	var s []int
	style := r.IntN(4)
	for left := n; left > 0; {
		var k int
		switch style {
		case 0:
			k = r.IntN(3) // 0,1,2
		case 1:
			k = r.IntN(5)
		case 2:
			k = 1 + r.IntN(8)
			if r.IntN(4) == 0 {
				k = 0
			}
		default:
			k = r.IntN(n + 2)
		}
		s = append(s, k)
		left -= min(k, left)
		if len(s) > 4*n+8 {
			break
		}
	}
	return s
}

// Dump renders a parse result with every position, or the error with its position.
func Dump(f *syntax.File, err error) string {
	if err != nil {
		if pe, ok := err.(syntax.ParseError); ok {
			return fmt.Sprintf("ERR %s @%d incomplete=%v", err.Error(), pe.Pos.Offset(), pe.Incomplete)
		}
		return "ERR " + err.Error()
	}
	var b bytes.Buffer
	if err := typedjson.Encode(&b, f); err != nil {
		return "ENCODE-ERR " + err.Error()
	}
	return b.String()
}

// ParseWith parses src in the given variant through the given reader.
func ParseWith(rd io.Reader, l syntax.LangVariant) (*syntax.File, error) {
	return syntax.NewParser(syntax.Variant(l), syntax.KeepComments(true)).Parse(rd, "")
}

var pieces = []string{"\\\n", "\\\r\n", "\r\n", "\x00", "\\", "é", "世", "😀", "\n", " ", "`", "\"", "'", "$", "\\\\", "<1-2>", "${==a}", "$(", ")", "\t", "#", "<<EOF\n", "EOF\n", "\xff", "\xc3", ";", "\r"}

// Mutate applies the k-th mutation of a fixed enumeration to src: insert one
// of the reader-relevant pieces at a position, or delete / duplicate a byte.
// The enumeration has MutCount(src) members.
func MutCount(src string) int { return (len(src) + 1) * len(pieces) }

func Mutate(src string, k int) string {
	pos := k / len(pieces)
	pc := pieces[k%len(pieces)]
	if pos > len(src) {
		pos = len(src)
	}
	return src[:pos] + pc + src[pos:]
}

// RandMutate applies 1..3 random mutations (insert piece, delete byte, splice other corpus item).
func RandMutate(r *rand.Rand, src string, corpus []string) string {
	b := src
	for k := 0; k < 1+r.IntN(3); k++ {
		switch r.IntN(5) {
		case 0, 1, 2:
			pos := r.IntN(len(b) + 1)
			b = b[:pos] + pieces[r.IntN(len(pieces))] + b[pos:]
		case 3:
			if len(b) > 0 {
				pos := r.IntN(len(b))
				b = b[:pos] + b[pos+1:]
			}
		case 4:
			o := corpus[r.IntN(len(corpus))]
			pos := r.IntN(len(b) + 1)
			b = b[:pos] + o + b[pos:]
		}
	}
	return b
}

// HasAny reports whether s contains any of the substrings.
func HasAny(s string, subs ...string) bool {
	for _, x := range subs {
		if strings.Contains(s, x) {
			return true
		}
	}
	return false
}
