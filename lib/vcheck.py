"""Common machinery for every property check (see DESIGN.md section 3).

A check module checks/<id>.py defines  run(ctx)  and optionally  replay(ctx, obj).
It uses the Ctx helpers below:

  ctx.coq_props()                 build coq/Props/<ID>.vo and everything it depends on; re-run coqc on
                                  the Props file to capture Print Assumptions; records obligations
  ctx.go_build(cmd)               build /verif/harness/cmd/<cmd> against /repo's CURRENT working tree
                                  (-tags verif) -> path of the binary
  ctx.run(argv, ...)              run a subprocess with timeout, returns (rc, stdout, stderr)
  ctx.jsonl(argv, ...)            run a harness command, parse its JSON lines
  ctx.coq_cases(name, text)       write coq/Cases/<name>.v, run coqc on it (vm_compute inside the
                                  kernel), return (ok, stdout)
  ctx.leg(name, cases, mismatches, note)     record a correspondence leg (Go vs model, Spec vs bash...)
  ctx.fail(clause, input, klass, detail)     record a concrete property-level failing input
  ctx.finish(...)                 verdict + evidence + exit code

Verdict (DESIGN 1.1/3.7):
  concrete failing input, class listed as known -> "KNOWN-FINDING: property=<id> <what>", exit 0
  concrete failing input not listed             -> VIOLATION property=<id> replay=<file>, exit 1
  proof broken or a leg disagrees, no input     -> VIOLATION ... no-failing-input-found, exit 1
"""
import fcntl
import hashlib
import json
import os
import re
import subprocess
import sys
import time

ROOT = os.path.dirname(os.path.dirname(os.path.abspath(__file__)))
REPO = os.environ.get("VERIF_REPO", "/repo")
BUILD = os.path.join(ROOT, "build")
COQ = os.path.join(ROOT, "coq")

GOENV = {"GOFLAGS": "-mod=mod", "GOPROXY": "off", "GONOSUMDB": "*", "GONOSUMCHECK": "1",
         "GOFLAGS_EXTRA": "", "CGO_ENABLED": "0"}

FORBIDDEN = re.compile(r"\b(Admitted|admit|Axiom|Axioms|Parameter|Parameters|Conjecture|Hypothesis|Variable|Variables)\b"
                       r"|Unset\s+Guard|bypass_check|Unset\s+Universe\s+Checking|Unset\s+Positivity|type-in-type|impredicative-set|Admit\s+Obligations")


def coq_bytes(b):
    """bytes -> Coq list N literal (scope N must be open)."""
    if isinstance(b, str):
        b = bytes.fromhex(b)
    return "[" + ";".join(str(x) for x in b) + "]"


def coq_list(items):
    return "[" + ";".join(items) + "]"


def coq_z(n):
    return "(%d)%%Z" % n


def strip_coq_comments(text):
    out, depth, i = [], 0, 0
    while i < len(text):
        if text.startswith("(*", i):
            depth += 1
            i += 2
        elif text.startswith("*)", i) and depth > 0:
            depth -= 1
            i += 2
        else:
            if depth == 0:
                out.append(text[i])
            i += 1
    return "".join(out)


class Ctx:
    def __init__(self, pid, tier, seed):
        self.pid = pid
        self.tier = tier
        self.seed = seed
        self.t0 = time.time()
        self.legs = []          # dicts
        self.failures = []      # concrete failing inputs
        self.broken = []        # (what, detail) proof obligations / correspondences that no longer check
        self.obligations = []   # theorem names
        self.discharged = []
        self.axioms = []
        self.assumptions = []
        self.trusted = ["Coq 8.16.1 kernel incl. vm_compute (no native_compute)",
                        "Go harness generators/canonicalisation under /verif/harness",
                        "correspondence is differential testing (seeded), not proof"]
        self.samples = []
        self.evaluations = 0
        self.nontrivial = set()
        self.rule = ""
        self.extra = {}
        self.checker_cmd = "tools/coqbuild.sh Props/%s.vo && coqc -Q coq Verif coq/Props/%s.v" % (pid, pid)
        self.known = load_known(pid)
        self.level = "proof"
        os.makedirs(BUILD, exist_ok=True)
        os.makedirs(os.path.join(ROOT, "evidence"), exist_ok=True)
        os.makedirs(os.path.join(ROOT, "replay"), exist_ok=True)

    # ---------------------------------------------------------------- processes
    def env(self, extra=None):
        e = dict(os.environ)
        e.update({"GOFLAGS": "-mod=mod", "GOPROXY": "off", "CGO_ENABLED": "0"})
        e.pop("GOSUMDB", None)   # must not be "off" together with toolchain auto-switch
        e.pop("GOTOOLCHAIN", None)
        if extra:
            e.update(extra)
        return e

    def run(self, argv, timeout=600, cwd=None, stdin=None, env=None):
        try:
            p = subprocess.run(argv, cwd=cwd or ROOT, input=stdin, stdout=subprocess.PIPE,
                               stderr=subprocess.PIPE, timeout=timeout, env=self.env(env))
            return p.returncode, p.stdout.decode("utf-8", "replace"), p.stderr.decode("utf-8", "replace")
        except subprocess.TimeoutExpired as ex:
            out = (ex.stdout or b"").decode("utf-8", "replace")
            return 124, out, "TIMEOUT after %ss" % timeout

    def jsonl(self, argv, timeout=600, stdin=None, cwd=None):
        rc, out, err = self.run(argv, timeout=timeout, stdin=stdin, cwd=cwd)
        rows = []
        for line in out.splitlines():
            line = line.strip()
            if not line.startswith("{"):
                continue
            try:
                rows.append(json.loads(line))
            except ValueError:
                pass
        return rc, rows, err

    # ---------------------------------------------------------------- Coq
    def coq_deps(self):
        """transitive closure of the Verif.* files Props/<pid>.v requires (by parsing Require lines)."""
        seen, todo = {}, [os.path.join(COQ, "Props", self.pid + ".v")]
        while todo:
            p = todo.pop()
            if p in seen or not os.path.exists(p):
                continue
            txt = strip_coq_comments(open(p, encoding="utf-8", errors="replace").read())
            seen[p] = txt
            for m in re.finditer(r"From\s+Verif\s+Require\s+(?:Import\s+|Export\s+)?([^.]*(?:\.[A-Za-z_][^.]*)*)\.(?:\s|$)", txt):
                for name in m.group(1).split():
                    todo.append(os.path.join(COQ, *name.split(".")) + ".v")
            for m in re.finditer(r"\bVerif\.([A-Za-z0-9_.]+)", txt):
                todo.append(os.path.join(COQ, *m.group(1).split(".")) + ".v")
        return seen

    def coq_gate(self):
        """reject forbidden vernacular in Props/<pid>.v and everything it depends on (comments stripped)."""
        bad = []
        for p, txt in self.coq_deps().items():
            for m in FORBIDDEN.finditer(txt):
                w = m.group(0)
                # Variable/Hypothesis are allowed inside a Section
                if re.match(r"Variables?|Hypothesis", w):
                    pre = txt[:m.start()]
                    if len(re.findall(r"^\s*Section\s", pre, re.M)) > len(re.findall(r"^\s*End\s", pre, re.M)):
                        continue
                bad.append("%s: %s" % (os.path.relpath(p, ROOT), w))
        self.extra["coq_files_in_scope"] = sorted(os.path.relpath(p, COQ) for p in self.coq_deps())
        return bad

    def coq_props(self, extra_targets=(), timeout=1500):
        """Build Props/<pid>.vo (+deps), then re-run coqc on it to capture Print Assumptions."""
        props = os.path.join(COQ, "Props", self.pid + ".v")
        bad = self.coq_gate()
        if bad:
            self.broken.append(("coq-gate", "forbidden vernacular: " + "; ".join(bad[:10])))
        names = []
        if os.path.exists(props):
            txt = strip_coq_comments(open(props).read())
            names = re.findall(r"^\s*(?:Theorem|Lemma|Example|Corollary)\s+([A-Za-z0-9_']+)", txt, re.M)
        self.obligations = names
        targets = ["Props/%s.vo" % self.pid] + list(extra_targets)
        rc, out, err = self.run([os.path.join(ROOT, "tools", "coqbuild.sh")] + targets, timeout=timeout)
        if rc != 0:
            self.broken.append(("coq-build", "make %s failed (rc=%d): %s" % (" ".join(targets), rc, (out + err)[-1500:])))
            self.discharged = []
            return False
        # recompile the (tiny) Props file alone (output to build/, shared lock) to read the Print Assumptions output
        lock = open(os.path.join(COQ, ".buildlock"), "a")
        fcntl.flock(lock, fcntl.LOCK_SH)
        tmpdir = os.path.join(BUILD, "props_%s_%d" % (self.pid, os.getpid()))
        os.makedirs(tmpdir, exist_ok=True)
        tmpvo = os.path.join(tmpdir, "%s.vo" % self.pid)
        try:
            rc, out, err = self.run(["coqc", "-Q", ".", "Verif", "-o", tmpvo, "Props/%s.v" % self.pid], cwd=COQ, timeout=600)
        finally:
            fcntl.flock(lock, fcntl.LOCK_UN)
            lock.close()
            import shutil
            shutil.rmtree(tmpdir, ignore_errors=True)
        if rc != 0:
            self.broken.append(("coq-props", "coqc Props/%s.v failed: %s" % (self.pid, (out + err)[-1500:])))
            return False
        self.discharged = list(names)
        if self.tier == "thorough" and os.environ.get("VERIF_NO_COQCHK") != "1":
            # independent re-check of the compiled Props file and everything it depends on
            lock = open(os.path.join(COQ, ".buildlock"), "w")
            fcntl.flock(lock, fcntl.LOCK_SH)
            try:
                rc2, o2, e2 = self.run(["coqchk", "-silent", "-o", "-Q", ".", "Verif", "Verif.Props.%s" % self.pid], cwd=COQ, timeout=3000)
            finally:
                fcntl.flock(lock, fcntl.LOCK_UN)
                lock.close()
            txt2 = o2 + e2
            m2 = re.search(r"\* Axioms:\s*(.*?)\n\s*\n\s*\* Constants", txt2, re.S)
            self.extra["coqchk"] = {"rc": rc2, "axioms": (m2.group(1).strip() if m2 else "?")[:2000]}
            if rc2 != 0:
                self.broken.append(("coqchk", "coqchk Verif.Props.%s failed: %s" % (self.pid, txt2[-1200:])))
            else:
                self.trusted.append("coqchk -o re-checked Props/%s.vo and its dependencies; axioms: %s" % (self.pid, self.extra["coqchk"]["axioms"][:300]))
        ax = []
        closed = out.count("Closed under the global context")
        for blk in re.split(r"\n(?=Axioms:)", out):
            if blk.startswith("Axioms:") or "\nAxioms:" in blk:
                for m in re.finditer(r"^([A-Za-z0-9_.']+)\s*:", blk.split("Axioms:", 1)[1], re.M):
                    ax.append(m.group(1))
        self.axioms = sorted(set(ax))
        self.extra["print_assumptions_closed"] = closed
        self.extra["print_assumptions_axioms"] = self.axioms
        if self.axioms:
            self.trusted.append("axioms reported by Print Assumptions: " + ", ".join(self.axioms))
        else:
            self.trusted.append("Print Assumptions: every theorem in Props/%s.v is closed under the global context (no axioms)" % self.pid)
        return True

    def coq_cases(self, name, text, timeout=900):
        d = os.path.join(COQ, "Cases")
        os.makedirs(d, exist_ok=True)
        name = "%s_p%d" % (re.sub(r"[^A-Za-z0-9_]", "_", name), os.getpid())   # concurrent runs must not collide
        path = os.path.join(d, name + ".v")
        with open(path, "w") as f:
            f.write(text)
        rc, out, err = self.run(["coqc", "-Q", COQ, "Verif", path], cwd=d, timeout=timeout)
        for ext in (".vo", ".vok", ".vos", ".glob"):
            try:
                os.remove(os.path.join(d, name + ext))
            except OSError:
                pass
        for f in (os.path.join(d, "." + name + ".aux"), path if rc == 0 else ""):
            try:
                if f:
                    os.remove(f)
            except OSError:
                pass
        return rc == 0, out + err

    # ---------------------------------------------------------------- Go
    def go_build(self, cmd, tags="verif", race=False):
        """Build harness/cmd/<cmd> against the current working tree of REPO (/repo unless VERIF_REPO is set)."""
        h = os.path.join(ROOT, "harness")
        lock = open(os.path.join(BUILD, ".golock"), "w")
        fcntl.flock(lock, fcntl.LOCK_EX)
        try:
            tagname = "" if REPO == "/repo" else "-" + hashlib.sha1(REPO.encode()).hexdigest()[:8]
            modfile = os.path.join(BUILD, "go%s.mod" % tagname)
            mod = open(os.path.join(h, "go.mod")).read().replace("=> /repo", "=> " + REPO)
            if not os.path.exists(modfile) or open(modfile).read() != mod:
                open(modfile, "w").write(mod)
            try:
                src = open(os.path.join(REPO, "go.sum")).read()
                dst = modfile[:-4] + ".sum"
                if not os.path.exists(dst) or open(dst).read() != src:
                    open(dst, "w").write(src)
            except OSError:
                pass
            out = os.path.join(BUILD, cmd + tagname + ("-race" if race else ""))
            argv = ["go", "build", "-modfile", modfile, "-tags", tags, "-o", out]
            env = {}
            if race:
                argv.insert(2, "-race")
                env["CGO_ENABLED"] = "1"
            argv.append("./cmd/" + cmd)
            rc, o, e = self.run(argv, cwd=h, timeout=900, env=env)
        finally:
            fcntl.flock(lock, fcntl.LOCK_UN)
            lock.close()
        if rc != 0:
            self.broken.append(("go-build", "harness %s does not build against the current tree: %s" % (cmd, (o + e)[-1500:])))
            return None
        return out

    def go_build_repo(self, pkg, outname, tags="verif"):
        """Build a command of /repo itself (e.g. ./cmd/shfmt) from the current tree."""
        tagname = "" if REPO == "/repo" else "-" + hashlib.sha1(REPO.encode()).hexdigest()[:8]
        out = os.path.join(BUILD, outname + tagname)
        rc, o, e = self.run(["go", "build", "-tags", tags, "-o", out, pkg], cwd=REPO, timeout=900)
        if rc != 0:
            self.broken.append(("go-build", "%s does not build: %s" % (pkg, (o + e)[-1500:])))
            return None
        return out

    # ---------------------------------------------------------------- recording
    def leg(self, name, cases, mismatches, note=""):
        """A correspondence leg. mismatches: list of JSON-able descriptions."""
        self.legs.append({"leg": name, "cases": cases, "mismatches": len(mismatches), "note": note,
                          "first_mismatches": mismatches[:3]})
        if mismatches:
            self.broken.append(("correspondence:" + name,
                                "%d of %d cases differ; first: %s" % (len(mismatches), cases, json.dumps(mismatches[0])[:1200])))

    def fail(self, clause, inp, klass=None, detail=None):
        self.failures.append({"clause": clause, "input": inp, "class": klass, "detail": detail})

    def count(self, n, keys=()):
        self.evaluations += n
        for k in keys:
            self.nontrivial.add(k)

    def sample(self, s):
        if len(self.samples) < 6:
            self.samples.append(s)

    # ---------------------------------------------------------------- verdict
    def finish(self):
        lines = []
        viol = 0
        known_hit = {}
        unlisted = []
        for f in self.failures:
            kf = None
            if f.get("class"):
                for k in self.known:
                    if k["status"] == "known" and k["class"] == f["class"]:
                        kf = k
                        break
            if kf:
                known_hit.setdefault(kf["id"], (kf, f))
            else:
                unlisted.append(f)
        for kid, (kf, f) in sorted(known_hit.items()):
            lines.append("KNOWN-FINDING: property=%s %s [%s] e.g. %s" % (self.pid, kf["what"], kid, json.dumps(f["input"])[:200]))
        replay = None
        unlisted.sort(key=lambda f: len(json.dumps(f["input"])))
        if unlisted:
            viol = len(unlisted)
            replay = self.write_replay({"property": self.pid, "seed": self.seed, "tier": self.tier,
                                        "kind": "failing-input", "failures": unlisted[:20],
                                        "broken": [list(b) for b in self.broken]})
            lines.append("VIOLATION property=%s replay=%s" % (self.pid, replay))
        elif self.broken:
            viol = 1
            replay = self.write_replay({"property": self.pid, "seed": self.seed, "tier": self.tier,
                                        "kind": "no-failing-input-found",
                                        "no_longer_checks": [{"what": w, "detail": d} for (w, d) in self.broken]})
            lines.append("VIOLATION property=%s replay=%s no-failing-input-found" % (self.pid, replay))
        self.write_evidence(viol, sorted(known_hit))
        for l in lines:
            print(l)
        for (w, d) in self.broken:
            print("  broken: %s: %s" % (w, d[:600]))
        for f in unlisted[:5]:
            print("  failing: %s" % json.dumps(f)[:600])
        print("%s %s tier=%s seed=%d obligations=%d/%d legs=%s evaluations=%d wall=%.1fs" % (
            self.pid, "FAIL" if viol else "ok", self.tier, self.seed, len(self.discharged), len(self.obligations),
            ",".join("%s:%d/%d" % (l["leg"], l["cases"] - l["mismatches"], l["cases"]) for l in self.legs),
            self.evaluations, time.time() - self.t0))
        sys.stdout.flush()
        return 1 if viol else 0

    def write_replay(self, obj):
        h = hashlib.sha1(json.dumps(obj, sort_keys=True).encode()).hexdigest()[:10]
        path = os.path.join(ROOT, "replay", "%s-%s-%d-%s.json" % (self.pid, self.tier, self.seed, h))
        with open(path, "w") as f:
            json.dump(obj, f, indent=1)
        return path

    def write_evidence(self, viol, known_ids):
        cov = {
            "obligations": len(self.obligations),
            "discharged": len(self.discharged),
            "obligation_names": self.obligations,
            "checker_cmd": self.checker_cmd,
            "trusted_base": self.trusted,
            "evaluations": self.evaluations,
            "distinct_nontrivial": len(self.nontrivial),
            "rule": self.rule,
            "samples": self.samples if self.samples else ["(no sample recorded)"],
            "traces_validated_against_impl": sum(l["cases"] for l in self.legs if l["leg"].startswith("code")),
            "legs": self.legs,
            "known_findings_seen": known_ids,
            "no_longer_checks": [w for (w, _) in self.broken],
        }
        cov.update(self.extra)
        ev = {"property_id": self.pid, "tier": self.tier, "seed": self.seed, "level": self.level,
              "coverage": cov, "assumptions": self.assumptions, "wall_s": round(time.time() - self.t0, 2),
              "violations": viol}
        path = os.path.join(ROOT, "evidence", self.pid + ".json")
        tmp = path + ".tmp"
        with open(tmp, "w") as f:
            json.dump(ev, f, indent=1)
        os.replace(tmp, path)


def load_known(pid):
    out = []
    files = [os.path.join(ROOT, "known_findings.jsonl")]
    for p in files:
        if not os.path.exists(p):
            continue
        for line in open(p):
            line = line.strip()
            if not line or line.startswith("#") or line.startswith("fixed:"):
                continue
            k = json.loads(line)
            if k.get("property") == pid:
                out.append(k)
    return out
