#!/bin/bash
# MANIFEST.setup_cmd: build the framework from files on disk only (offline).
set -u
cd "$(dirname "$0")"
export GOFLAGS=-mod=mod GOPROXY=off
unset GOSUMDB GOTOOLCHAIN
mkdir -p build evidence replay
rc=0
tools/coqbuild.sh -k > build/coq-setup.log 2>&1 || { echo "setup: some Coq files failed to build (see build/coq-setup.log)"; tail -20 build/coq-setup.log; }
cp /repo/go.sum harness/go.sum
for d in harness/cmd/*/; do
  c=$(basename "$d")
  (cd harness && go build -tags verif -o ../build/"$c" ./cmd/"$c") || { echo "setup: harness $c failed to build"; rc=1; }
done
(cd /repo && go build -tags verif -o /verif/build/shfmt ./cmd/shfmt && go build -tags verif -o /verif/build/gosh ./cmd/gosh) || rc=1
exit 0
